------------------------------- MODULE Interop -------------------------------
(***************************************************************************)
(* C11: interpreted functions and types interoperate with compiled code    *)
(* like Go values.  This module states the CONTRACTS of the compiled entry *)
(* points through which values cross the boundary, as small-step           *)
(* specifications over a callback log.  A behaviour is one scenario:       *)
(*                                                                          *)
(*  sort    sort.Sort/Stable(x sort.Interface), sort.Slice/SliceStable(s,   *)
(*          less): the callee is NONDETERMINISTIC - it may call Less(i,j)   *)
(*          and Swap(i,j) in any order, any number of times, and may stop   *)
(*          as soon as the answers it received imply that the slice is      *)
(*          sorted.  Every answer is the comparison of the elements THEN at *)
(*          i and j.  (M): whenever such a callee stops, the slice is a     *)
(*          sorted permutation of the input.                                *)
(*  map     strings.Map(f, s): f once per rune, in order; negative = drop   *)
(*  fields  strings.FieldsFunc(s, f): call order unspecified                *)
(*  fmt     fmt.Sprint/Sprintln/Sprintf on operands some of which are       *)
(*          interpreted types seen through fmt.Stringer / error             *)
(*  reader  io.ReadAll / bufio.Scanner on an interpreted io.Reader that     *)
(*          delivers data in chunks, then io.EOF (alone or together with    *)
(*          the last chunk) or an interpreted error value                   *)
(*  conc    N compiled goroutines calling one interpreted closure           *)
(*  call    compiled functions with several results / variadic parameters   *)
(*          called from interpreted code in the forms Go allows             *)
(*  apply   an interpreted function of 0..3 arguments handed to a compiled  *)
(*          applicator (the harness supplies the signature cell)            *)
(*                                                                          *)
(* Strings are sequences of rune codes (map, fields, fmt) or of bytes       *)
(* (reader, call).                                                          *)
(***************************************************************************)
EXTENDS InteropLaws, TLC, Json

CONSTANTS Scen,         \* scenarios explored in this run
          SortLens,     \* lengths of the slices to sort
          Keys,         \* sort keys (duplicates arise)
          SortExplore,  \* explore the nondeterministic callee on inputs of these lengths
          ExploreKeys,  \* ... whose keys are in this set (other inputs are only emitted)
          Alpha,        \* rune codes of the strings for map / fields
          StrLens,      \* their lengths
          ChunkSet,     \* chunks an interpreted reader may deliver (byte sequences)
          MaxChunks,
          MaxOps,       \* operands of a fmt call
          ConcN, ConcK, \* goroutines, calls per goroutine
          StaleLess,    \* broken: Less answers on the INITIAL contents
          DropEOFData,  \* broken: the caller drops data delivered together with an error
          NoMutex,      \* broken: the closure updates the shared counter without the lock
          EmitOn

VARIABLES sc,     \* the scenario (a record; field k names it)
          ph,     \* "run" | "done"
          cur,    \* sort: current arrangement (sequence of identities)
          know,   \* sort: pairs <<x, y>> for which the callee knows ~less(x, y)
          pos,    \* runes / operands / chunks consumed
          buf,    \* output or unconsumed input
          toks,   \* tokens delivered
          log,    \* callback log
          gor,    \* conc: per goroutine state
          total,  \* conc: shared counter; fmt: calls through pointer receivers
          lockh,  \* conc: holder of the interpreted mutex (0 = free)
          rerr    \* reader: last error returned by Read ("nil", "EOF", "E7")

vars == <<sc, ph, cur, know, pos, buf, toks, log, gor, total, lockh, rerr>>
\* the log is a function of the rest except for sort, where only the callee's knowledge matters
View == <<sc, ph, cur, know, pos, buf, toks, gor, total, lockh, rerr>>

Seqs(S, lens) == UNION {[1..n -> S] : n \in lens}

Start(c, g) == /\ ph = "run" /\ cur = c /\ know = {} /\ pos = 0 /\ buf = <<>> /\ toks = <<>>
               /\ log = <<>> /\ gor = g /\ total = 0 /\ lockh = 0 /\ rerr = "nil"

----------------------------------------------------------------------------
(* sort *)
SortScen == {[k |-> "sort", in |-> s, ord |-> o] : s \in Seqs(Keys, SortLens), o \in {"asc", "desc"}}

\* transitive closure of K \cup {<<x, y>>} for an already closed K
AddFact(K, x, y, n) ==
    K \cup {p \in (1..n) \X (1..n) : (p[1] = x \/ <<p[1], x>> \in K) /\ (p[2] = y \/ <<y, p[2]>> \in K)}

SortLess(i, j) ==
    LET x == cur[i]
        y == cur[j]
        ans == IF StaleLess THEN Lt(sc.ord, sc.in[i], sc.in[j]) ELSE Lt(sc.ord, sc.in[x], sc.in[y])
        \* less is a strict weak order: less(x,y) implies ~less(y,x); ~less is transitive
        fact == IF ans THEN <<y, x>> ELSE <<x, y>>
    IN \* a question whose answer the callee already knows changes neither the arrangement
       \* nor its knowledge (it only lengthens the log): not explored
       /\ i # j /\ fact \notin know
       /\ know' = AddFact(know, fact[1], fact[2], Len(cur))
       /\ log' = Append(log, <<"less", i, j, ans>>)
       /\ UNCHANGED <<sc, ph, cur, pos, buf, toks, gor, total, lockh, rerr>>

SortSwap(i, j) ==
    /\ cur' = SwapAt(cur, i, j)
    /\ log' = Append(log, <<"swap", i, j>>)
    /\ UNCHANGED <<sc, ph, know, pos, buf, toks, gor, total, lockh, rerr>>

\* the callee may return once it KNOWS that no element is less than its predecessor
SortDone ==
    /\ \A p \in 1..(Len(cur) - 1) : <<cur[p + 1], cur[p]>> \in know
    /\ ph' = "done"
    /\ UNCHANGED <<sc, cur, know, pos, buf, toks, log, gor, total, lockh, rerr>>

SortNext == /\ sc.k = "sort" /\ ph = "run"
            /\ Len(sc.in) \in SortExplore /\ Range(sc.in) \subseteq ExploreKeys
            /\ \/ \E i, j \in 1..Len(cur) : SortLess(i, j)
               \/ \E i, j \in 1..Len(cur) : i < j /\ SortSwap(i, j)
               \/ SortDone

----------------------------------------------------------------------------
(* strings.Map *)
MapFuns == {"inc", "dropa", "toe", "toa", "id", "neg"}
MapF(f, r) == CASE f = "inc" -> r + 1
                [] f = "dropa" -> IF r = 97 THEN -1 ELSE r
                [] f = "toe" -> IF r = 97 THEN 233 ELSE r
                [] f = "toa" -> IF r = 233 THEN 97 ELSE r
                [] f = "id" -> r
                [] f = "neg" -> -1
MapScen == {[k |-> "map", s |-> s, f |-> f] : s \in Seqs(Alpha, StrLens), f \in MapFuns}

MapNext ==
    /\ sc.k = "map" /\ ph = "run"
    /\ IF pos < Len(sc.s)
       THEN LET r == sc.s[pos + 1]
                m == MapF(sc.f, r)
            IN /\ pos' = pos + 1
               /\ log' = Append(log, <<"map", r>>)
               /\ buf' = IF m < 0 THEN buf ELSE Append(buf, m)
               /\ UNCHANGED ph
       ELSE ph' = "done" /\ UNCHANGED <<pos, log, buf>>
    /\ UNCHANGED <<sc, cur, know, toks, gor, total, lockh, rerr>>

----------------------------------------------------------------------------
(* strings.FieldsFunc with f(r) = (r = sep) *)
FieldsScen == {[k |-> "fields", s |-> s, sep |-> c] : s \in Seqs(Alpha, StrLens), c \in Alpha}

FieldsNext ==
    /\ sc.k = "fields" /\ ph = "run"
    /\ IF pos < Len(sc.s)
       THEN LET r == sc.s[pos + 1] IN
            /\ pos' = pos + 1
            /\ IF r = sc.sep
               THEN buf' = <<>> /\ toks' = IF buf = <<>> THEN toks ELSE Append(toks, buf)
               ELSE buf' = Append(buf, r) /\ toks' = toks
            /\ UNCHANGED ph
       ELSE /\ ph' = "done" /\ buf' = <<>>
            /\ toks' = IF buf = <<>> THEN toks ELSE Append(toks, buf)
            /\ UNCHANGED pos
    /\ UNCHANGED <<sc, cur, know, log, gor, total, lockh, rerr>>

----------------------------------------------------------------------------
(* fmt: operands
     int, str     plain int (one digit) / string (one letter)
     sv           interpreted struct, String() on the value receiver, passed as fmt.Stringer
     svp          same type, passed as pointer
     spp          String() on the pointer receiver (it counts its calls), passed as pointer
     ev, evp, epp the same for Error() passed as error
     bothe        a type with Error() and String() passed as error: Error() wins
   operand i carries the value i.  An interpreted type reaches compiled code with its methods
   only through a parameter (slice element, variable) whose type is the compiled interface. *)
ObjKinds == {"sv", "svp", "spp", "ev", "evp", "epp", "bothe"}
StrKinds == {"sv", "svp", "spp"}
PtrKinds == {"spp", "epp"}
OpKinds == {"int", "str"} \cup ObjKinds
FmtCalls == {[fn |-> "Sprint", verb |-> "v"], [fn |-> "Sprintln", verb |-> "v"],
             [fn |-> "Sprintf", verb |-> "v"], [fn |-> "Sprintf", verb |-> "s"]}
\* form: plain operands are passed to the variadic fmt function directly, as separate arguments
\* or as a spread slice; operands that are interpreted types travel through parameters typed
\* with the compiled interface (form "typed")
FmtOps(verb, fm) == {q \in Seqs(OpKinds, 1..MaxOps) :
                        /\ verb = "s" => \A i \in 1..Len(q) : q[i] # "int"
                        /\ (fm = "typed") = (\E i \in 1..Len(q) : q[i] \in ObjKinds)}
FmtScen == UNION {{[k |-> "fmt", fn |-> c.fn, verb |-> c.verb, form |-> fm, ops |-> o] : o \in FmtOps(c.verb, fm)} :
                     c \in FmtCalls, fm \in {"args", "spread", "typed"}}

OpStr(kind, v) == CASE kind = "int" -> <<48 + v>>
                    [] kind = "str" -> <<119 + v>>
                    [] kind \in StrKinds -> <<83, 60, 48 + v, 62>>     \* S<v>
                    [] OTHER -> <<69, 60, 48 + v, 62>>                 \* E<v>
OpSep(fn, prev, kind) == CASE fn = "Sprint" -> IF prev # "str" /\ kind # "str" THEN <<32>> ELSE <<>>
                           [] fn = "Sprintln" -> <<32>>
                           [] OTHER -> <<124>>

FmtNext ==
    /\ sc.k = "fmt" /\ ph = "run"
    /\ IF pos < Len(sc.ops)
       THEN LET kind == sc.ops[pos + 1]
                v == pos + 1
                sep == IF pos = 0 THEN <<>> ELSE OpSep(sc.fn, sc.ops[pos], kind)
            IN /\ pos' = pos + 1
               /\ buf' = buf \o sep \o OpStr(kind, v)
               /\ log' = IF kind \in ObjKinds
                         THEN Append(log, <<IF kind \in StrKinds THEN "String" ELSE "Error", v>>)
                         ELSE log
               /\ total' = IF kind \in PtrKinds THEN total + 1 ELSE total
               /\ UNCHANGED ph
       ELSE /\ ph' = "done"
            /\ buf' = IF sc.fn = "Sprintln" THEN Append(buf, 10) ELSE buf
            /\ UNCHANGED <<pos, log, total>>
    /\ UNCHANGED <<sc, cur, know, toks, gor, lockh, rerr>>

----------------------------------------------------------------------------
(* io.Reader consumers *)
ReaderScen == {[k |-> "reader", via |-> v, eof |-> e, chunks |-> c] :
                  v \in {"ReadAll", "ScanLines", "ScanWords"}, e \in {"sep", "with", "err"},
                  c \in Seqs(ChunkSet, 0..MaxChunks)}

IsNL(b) == b = 10
IsSp(b) == b = 10 \/ b = 32
NotSp(b) == ~IsSp(b)
FirstIdx(b, from, P(_)) ==
    IF \E i \in from..Len(b) : P(b[i])
    THEN CHOOSE i \in from..Len(b) : P(b[i]) /\ \A j \in from..(i - 1) : ~P(b[j])
    ELSE 0
From(b, i) == SubSeq(b, i, Len(b))

\* incremental token extraction as a scanner does it on its buffer
RECURSIVE ExtractLines(_, _)
ExtractLines(b, atEOF) ==
    LET i == FirstIdx(b, 1, IsNL) IN
    IF i > 0 THEN LET r == ExtractLines(From(b, i + 1), atEOF) IN
                  [toks |-> <<SubSeq(b, 1, i - 1)>> \o r.toks, rest |-> r.rest]
    ELSE IF atEOF /\ b # <<>> THEN [toks |-> <<b>>, rest |-> <<>>]
    ELSE [toks |-> <<>>, rest |-> b]

RECURSIVE ExtractWords(_, _)
ExtractWords(b, atEOF) ==
    LET s == FirstIdx(b, 1, NotSp) IN
    IF s = 0 THEN [toks |-> <<>>, rest |-> <<>>]
    ELSE LET e == FirstIdx(b, s, IsSp) IN
         IF e > 0 THEN LET r == ExtractWords(From(b, e + 1), atEOF) IN
                       [toks |-> <<SubSeq(b, s, e - 1)>> \o r.toks, rest |-> r.rest]
         ELSE IF atEOF THEN [toks |-> <<From(b, s)>>, rest |-> <<>>]
         ELSE [toks |-> <<>>, rest |-> From(b, s)]

Extract(via, b, atEOF) == IF via = "ScanLines" THEN ExtractLines(b, atEOF) ELSE ExtractWords(b, atEOF)

ReadNext ==
    /\ sc.k = "reader" /\ ph = "run"
    /\ LET n == Len(sc.chunks)
           e == IF pos < n
                THEN (IF pos + 1 = n /\ sc.eof = "with" THEN "EOF" ELSE "nil")
                ELSE (IF sc.eof = "err" THEN "E7" ELSE "EOF")
           c == IF pos < n THEN sc.chunks[pos + 1] ELSE <<>>
           got == IF DropEOFData /\ e # "nil" THEN <<>> ELSE c
           b1 == buf \o got
           x == Extract(sc.via, b1, e # "nil")
       IN /\ log' = Append(log, <<"read", Len(c), e>>)
          /\ pos' = pos + 1
          /\ rerr' = e
          /\ ph' = IF e # "nil" THEN "done" ELSE "run"
          /\ IF sc.via = "ReadAll"
             THEN buf' = b1 /\ toks' = toks
             ELSE buf' = x.rest /\ toks' = toks \o x.toks
    /\ UNCHANGED <<sc, cur, know, gor, total, lockh>>

\* declarative results on the whole data: one pass, character by character
RECURSIVE Flatten(_)
Flatten(ss) == IF ss = <<>> THEN <<>> ELSE Head(ss) \o Flatten(From(ss, 2))
RECURSIVE SplitAcc(_, _, _, _, _)
SplitAcc(d, k, w, out, lines) ==
    IF k > Len(d) THEN (IF w # <<>> THEN Append(out, w) ELSE out)
    ELSE IF lines
         THEN (IF d[k] = 10 THEN SplitAcc(d, k + 1, <<>>, Append(out, w), lines)
               ELSE SplitAcc(d, k + 1, Append(w, d[k]), out, lines))
         ELSE (IF IsSp(d[k]) THEN SplitAcc(d, k + 1, <<>>, IF w # <<>> THEN Append(out, w) ELSE out, lines)
               ELSE SplitAcc(d, k + 1, Append(w, d[k]), out, lines))
LinesOf(d) == SplitAcc(d, 1, <<>>, <<>>, TRUE)
WordsOf(d) == SplitAcc(d, 1, <<>>, <<>>, FALSE)

----------------------------------------------------------------------------
(* N compiled goroutines, K calls each, of one interpreted closure f(x):
     pure    returns 2x+1
     mutex   mu.Lock(); total += x; mu.Unlock(); returns x
   goroutine g makes the calls f(10g+1) .. f(10g+K) *)
ConcScen == {[k |-> "conc", n |-> n, kk |-> kk, mode |-> m] : n \in ConcN, kk \in ConcK, m \in {"pure", "mutex"}}
ConcStart(n) == [g \in 1..n |-> [c |-> 0, st |-> "idle", tmp |-> 0, out |-> <<>>]]
Arg(g, c) == 10 * g + c

ConcNext ==
    /\ sc.k = "conc" /\ ph = "run"
    /\ \/ \E g \in 1..sc.n :
            LET G == gor[g]
                x == Arg(g, G.c + 1)
            IN /\ G.c < sc.kk
               /\ \/ /\ sc.mode = "pure" /\ G.st = "idle"
                     /\ gor' = [gor EXCEPT ![g].c = G.c + 1, ![g].out = Append(G.out, 2 * x + 1)]
                     /\ UNCHANGED <<total, lockh>>
                  \/ /\ sc.mode = "mutex" /\ G.st = "idle" /\ (NoMutex \/ lockh = 0)
                     /\ lockh' = IF NoMutex THEN lockh ELSE g
                     /\ gor' = [gor EXCEPT ![g].st = "locked"]
                     /\ UNCHANGED total
                  \/ /\ sc.mode = "mutex" /\ G.st = "locked"
                     /\ gor' = [gor EXCEPT ![g].st = "read", ![g].tmp = total]
                     /\ UNCHANGED <<total, lockh>>
                  \/ /\ sc.mode = "mutex" /\ G.st = "read"
                     /\ total' = G.tmp + x
                     /\ lockh' = IF NoMutex THEN lockh ELSE 0
                     /\ gor' = [gor EXCEPT ![g].st = "idle", ![g].c = G.c + 1, ![g].out = Append(G.out, x)]
               /\ UNCHANGED ph
       \/ /\ \A g \in 1..sc.n : gor[g].c = sc.kk
          /\ ph' = "done"
          /\ UNCHANGED <<gor, total, lockh>>
    /\ UNCHANGED <<sc, cur, know, pos, buf, toks, log, rerr>>

RECURSIVE SumTo(_, _)
SumTo(f, n) == IF n = 0 THEN 0 ELSE f[n] + SumTo(f, n - 1)
ConcSum(n, kk) == SumTo([i \in 1..(n * kk) |-> Arg(((i - 1) \div kk) + 1, ((i - 1) % kk) + 1)], n * kk)

----------------------------------------------------------------------------
(* compiled functions called from interpreted code.  form:
     ret     return f(..)            from an interpreted function with the same results
     assign  a, b := f(..)
     pass    g(f(..))                a multi-valued call as the whole argument list
     args    f(a, b, c)              variadic, separate arguments
     spread  f(xs...)                variadic, the slice itself is passed (aliasing!)
     nil     f(nilslice...)                                                   *)
MultiForms == {"ret", "assign", "pass"}
Digit(b) == b \in 48..57
RECURSIVE DecVal(_, _)
DecVal(s, n) == IF n = 0 THEN 0 ELSE 10 * DecVal(s, n - 1) + (s[n] - 48)
AtoiRes(s) ==
    LET neg == Len(s) > 0 /\ s[1] = 45
        d == IF neg THEN From(s, 2) ELSE s
        ok == Len(d) > 0 /\ \A i \in 1..Len(d) : Digit(d[i])
    IN IF ok THEN <<IF neg THEN 0 - DecVal(d, Len(d)) ELSE DecVal(d, Len(d)), TRUE>> ELSE <<0, FALSE>>
CutRes(s, sep) ==
    LET i == FirstIdx(s, 1, LAMBDA b : b = sep) IN
    IF i = 0 THEN <<s, <<>>, FALSE>> ELSE <<SubSeq(s, 1, i - 1), From(s, i + 1), TRUE>>
RECURSIVE SeqSum(_)
SeqSum(s) == IF s = <<>> THEN 0 ELSE Head(s) + SeqSum(From(s, 2))
RECURSIVE JoinSeq(_, _)
JoinSeq(ss, sep) == IF ss = <<>> THEN <<>>
                    ELSE IF Len(ss) = 1 THEN ss[1] ELSE ss[1] \o sep \o JoinSeq(From(ss, 2), sep)

AtoiScen == {[k |-> "call", f |-> "Atoi", form |-> fm, s |-> s] : fm \in MultiForms, s \in Seqs({45, 49, 50, 120}, 0..3)}
CutScen == {[k |-> "call", f |-> "Cut", form |-> fm, s |-> s] : fm \in MultiForms, s \in Seqs({97, 61, 233}, 0..3)}
ModfScen == {[k |-> "call", f |-> "Modf", form |-> fm, h |-> h] : fm \in MultiForms, h \in 0..7}
DivModScen == {[k |-> "call", f |-> "DivMod", form |-> fm, a |-> a, b |-> b] : fm \in MultiForms, a \in 0..7, b \in 1..3}
\* SumN(xs ...int) (sum, n int) also overwrites xs[0] with 100
SumNScen == {[k |-> "call", f |-> "SumN", form |-> fm, xs |-> xs] : fm \in {"args", "spread", "pass"}, xs \in Seqs(1..3, 0..3)}
               \cup {[k |-> "call", f |-> "SumN", form |-> "nil", xs |-> <<>>]}
WsumScen == {[k |-> "call", f |-> "Wsum", form |-> fm, w |-> w, xs |-> xs] : fm \in {"args", "spread"}, w \in 2..3, xs \in Seqs(1..3, 0..2)}
JoinScen == {[k |-> "call", f |-> "Join", form |-> "slice", sep |-> sp, xs |-> xs] : sp \in {<<>>, <<44>>}, xs \in Seqs({<<>>, <<97>>, <<233>>}, 0..3)}

CallRes(c) ==
    CASE c.f = "Atoi" -> AtoiRes(c.s)
      [] c.f = "Cut" -> CutRes(c.s, 61)
      [] c.f = "Modf" -> <<c.h \div 2, c.h % 2>>                \* integer part, fraction in halves
      [] c.f = "DivMod" -> <<c.a \div c.b, c.a % c.b>>
         \* sum, count, first element of the caller's slice / first argument afterwards
      [] c.f = "SumN" -> <<SeqSum(c.xs), Len(c.xs),
                           IF c.xs = <<>> THEN 0 - 1 ELSE IF c.form = "spread" THEN 100 ELSE c.xs[1]>>
      [] c.f = "Wsum" -> <<c.w * SeqSum(c.xs)>>
      [] c.f = "Join" -> <<JoinSeq(c.xs, c.sep)>>

----------------------------------------------------------------------------
(* an interpreted function of n arguments handed to a compiled applicator which calls it
   with the arguments a (par > 0: from par goroutines at once, each with the same arguments) *)
ApplyFns(n) == {"const", "one"} \cup (IF n >= 1 THEN {"arg1", "wsum"} ELSE {}) \cup (IF n >= 2 THEN {"arg2"} ELSE {})
                  \cup (IF n >= 3 THEN {"arg3"} ELSE {})
ApplyScen == UNION {{[k |-> "apply", n |-> n, fn |-> fn, a |-> a, ret |-> r, par |-> p] :
                        fn \in ApplyFns(n), a \in [1..n -> 0..3], r \in BOOLEAN, p \in {0, 3}} : n \in 0..3}
RECURSIVE Pos4(_, _)
Pos4(a, n) == IF n = 0 THEN 0 ELSE a[n] * (4 ^ (n - 1)) + Pos4(a, n - 1)
ApplyRes(c) == CASE c.fn = "const" -> 7
                 [] c.fn = "one" -> 1
                 [] c.fn = "arg1" -> c.a[1]
                 [] c.fn = "arg2" -> c.a[2]
                 [] c.fn = "arg3" -> c.a[3]
                 [] c.fn = "wsum" -> Pos4(c.a, c.n)      \* positional: injective in the arguments

----------------------------------------------------------------------------
Init ==
    \/ /\ "sort" \in Scen /\ sc \in SortScen /\ Start(Identity(Len(sc.in)), <<>>)
    \/ /\ "map" \in Scen /\ sc \in MapScen /\ Start(<<>>, <<>>)
    \/ /\ "fields" \in Scen /\ sc \in FieldsScen /\ Start(<<>>, <<>>)
    \/ /\ "fmt" \in Scen /\ sc \in FmtScen /\ Start(<<>>, <<>>)
    \/ /\ "reader" \in Scen /\ sc \in ReaderScen /\ Start(<<>>, <<>>)
    \/ /\ "conc" \in Scen /\ sc \in ConcScen /\ Start(<<>>, ConcStart(sc.n))
    \/ /\ "call" \in Scen /\ sc \in AtoiScen /\ Start(<<>>, <<>>)
    \/ /\ "call" \in Scen /\ sc \in CutScen /\ Start(<<>>, <<>>)
    \/ /\ "call" \in Scen /\ sc \in ModfScen /\ Start(<<>>, <<>>)
    \/ /\ "call" \in Scen /\ sc \in DivModScen /\ Start(<<>>, <<>>)
    \/ /\ "call" \in Scen /\ sc \in SumNScen /\ Start(<<>>, <<>>)
    \/ /\ "call" \in Scen /\ sc \in WsumScen /\ Start(<<>>, <<>>)
    \/ /\ "call" \in Scen /\ sc \in JoinScen /\ Start(<<>>, <<>>)
    \/ /\ "apply" \in Scen /\ sc \in ApplyScen /\ Start(<<>>, <<>>)

\* call and apply are single evaluations
OneStep == /\ sc.k \in {"call", "apply"} /\ ph = "run" /\ ph' = "done"
           /\ UNCHANGED <<sc, cur, know, pos, buf, toks, log, gor, total, lockh, rerr>>

Next == SortNext \/ MapNext \/ FieldsNext \/ FmtNext \/ ReadNext \/ ConcNext \/ OneStep

Spec == Init /\ [][Next]_vars

----------------------------------------------------------------------------
(* (M) properties of the contracts themselves *)
Done(k) == sc.k = k /\ ph = "done"

\* whatever the callee did: a sorted permutation of the input
SortDoneSorted == Done("sort") => cur \in SortedPerms(sc.in, sc.ord)
\* every log the callee model can produce is accepted by the admissible-log predicate
SortLogAdmissible == sc.k = "sort" => SortAnswersOK(sc.in, sc.ord, log, cur)
SortPermutation == sc.k = "sort" => cur \in Perms(Len(sc.in))

MapLaw == Done("map") =>
             /\ Len(log) = Len(sc.s)
             /\ Len(buf) = Cardinality({i \in 1..Len(sc.s) : MapF(sc.f, sc.s[i]) >= 0})
             /\ (sc.f = "id" => buf = sc.s)

FieldsLaw == Done("fields") =>
                /\ \A i \in 1..Len(toks) : toks[i] # <<>> /\ sc.sep \notin Range(toks[i])
                /\ Flatten(toks) = SelectSeq(sc.s, LAMBDA r : r # sc.sep)

\* the result depends on the data only, not on how the reader cut it into chunks nor on
\* how it reported the end
ReaderLaw == Done("reader") =>
                LET d == Flatten(sc.chunks) IN
                CASE sc.via = "ReadAll" -> buf = d
                  [] sc.via = "ScanLines" -> toks = LinesOf(d) /\ buf = <<>>
                  [] sc.via = "ScanWords" -> toks = WordsOf(d) /\ buf = <<>>

\* the results are independent of the schedule
ConcLaw == Done("conc") =>
              /\ (sc.mode = "mutex" => total = ConcSum(sc.n, sc.kk))
              /\ \A g \in 1..sc.n : \A c \in 1..sc.kk :
                    gor[g].out[c] = IF sc.mode = "pure" THEN 2 * Arg(g, c) + 1 ELSE Arg(g, c)
\* the interpreted mutex protects the read-modify-write
MutexLaw == (sc.k = "conc" /\ sc.mode = "mutex" /\ ~NoMutex) =>
               Cardinality({g \in 1..sc.n : gor[g].st # "idle"}) <= 1

----------------------------------------------------------------------------
ErrOut == IF rerr = "EOF" THEN "nil" ELSE rerr

Emit ==
    IF ~EmitOn THEN TRUE
    ELSE CASE sc.k = "sort" /\ ph = "run" /\ log = <<>> ->
                PrintT(ToJson([k |-> "sort", in |-> sc.in, ord |-> sc.ord,
                               finals |-> SortedPerms(sc.in, sc.ord), stable |-> StablePerm(sc.in, sc.ord),
                               lt |-> {p \in Keys \X Keys : Lt(sc.ord, p[1], p[2])}]))
           [] Done("map") -> PrintT(ToJson([k |-> "map", s |-> sc.s, f |-> sc.f, log |-> log, res |-> buf]))
           [] Done("fields") -> PrintT(ToJson([k |-> "fields", s |-> sc.s, sep |-> sc.sep, res |-> toks]))
           [] Done("fmt") -> PrintT(ToJson([k |-> "fmt", fn |-> sc.fn, verb |-> sc.verb, form |-> sc.form,
                                            ops |-> sc.ops, log |-> log, res |-> buf, ptrcalls |-> total]))
           [] Done("reader") -> PrintT(ToJson([k |-> "reader", via |-> sc.via, eof |-> sc.eof, chunks |-> sc.chunks,
                                               log |-> log, res |-> buf, toks |-> toks, err |-> ErrOut]))
           [] Done("conc") -> PrintT(ToJson([k |-> "conc", n |-> sc.n, kk |-> sc.kk, mode |-> sc.mode,
                                             outs |-> [g \in 1..sc.n |-> gor[g].out], total |-> total]))
           [] Done("call") -> PrintT(ToJson([k |-> "call", c |-> sc, res |-> CallRes(sc)]))
           [] Done("apply") -> PrintT(ToJson([k |-> "apply", n |-> sc.n, fn |-> sc.fn, a |-> sc.a, ret |-> sc.ret,
                                              par |-> sc.par, res |-> ApplyRes(sc)]))
           [] OTHER -> TRUE
=============================================================================

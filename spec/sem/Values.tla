------------------------------- MODULE Values -------------------------------
(***************************************************************************)
(* Go-level meaning of ONE operator application on operands of a basic     *)
(* type (The Go Programming Language Specification: "Arithmetic operators",*)
(* "Integer overflow", "Comparison operators", "Logical operators",        *)
(* "Constant expressions").                                                *)
(*                                                                         *)
(* Values:  integers  = BitVec byte sequences of the kind's width          *)
(*          floats    = FloatD records                                     *)
(*          strings   = sequences of byte codes                            *)
(*          booleans  = TRUE / FALSE                                       *)
(*                                                                         *)
(* A result is a tuple                                                     *)
(*    <<"v", static type, value>>   the expression has this value          *)
(*    <<"p", class>>                run-time panic: "divide" | "shift"     *)
(*    <<"c", why>>                  rejected at compile time: "divzero",   *)
(*                                  "overflow", "negshift"                 *)
(*    <<"s">>                       outside the modelled domain (inexact   *)
(*                                  float, operand not writable as a       *)
(*                                  constant): the case is not generated   *)
(*                                                                         *)
(* Shapes: "vv" both operands are variables, "cL" the left one is a typed  *)
(* constant, "cR" the right one, "cc" both (a constant expression: Go      *)
(* evaluates it exactly and rejects it when the result is not              *)
(* representable in the type).                                             *)
(***************************************************************************)
EXTENDS BitVec, FloatD

SignedKinds   == {"int8", "int16", "int32", "int64", "int"}
UnsignedKinds == {"uint8", "uint16", "uint32", "uint64", "uint", "uintptr"}
IntKinds      == SignedKinds \cup UnsignedKinds
FloatKinds    == {"float32", "float64"}

\* platform pinned to amd64: int, uint, uintptr are 64-bit
KWidth(k) == CASE k \in {"int8", "uint8"} -> 1 [] k \in {"int16", "uint16"} -> 2
               [] k \in {"int32", "uint32"} -> 4 [] OTHER -> 8
KSigned(k) == k \in SignedKinds

RVal(ty, v) == <<"v", ty, v>>
RPanic(cls) == <<"p", cls>>
RCErr(why)  == <<"c", why>>
RSkip       == <<"s">>

ArithOps == {"add", "sub", "mul", "quo", "rem"}
BitOps   == {"and", "or", "xor", "andnot"}
CmpOps   == {"eql", "neq", "lss", "leq", "gtr", "geq"}
ShiftOps == {"shl", "shr"}
LogicOps == {"land", "lor"}

---------------------------------------------------------------------------
(* run-time meaning *)

IntBin(op, k, a, b) ==
    LET sg == KSigned(k)
        z  == BVZero(KWidth(k))
    IN CASE op = "add" -> RVal(k, BVAdd(a, b))
         [] op = "sub" -> RVal(k, BVSub(a, b))
         [] op = "mul" -> RVal(k, BVMul(a, b))
         [] op = "quo" -> IF b = z THEN RPanic("divide") ELSE RVal(k, BVQuo(a, b, sg))
         [] op = "rem" -> IF b = z THEN RPanic("divide") ELSE RVal(k, BVRem(a, b, sg))
         [] op = "and" -> RVal(k, BVAnd(a, b))
         [] op = "or"  -> RVal(k, BVOr(a, b))
         [] op = "xor" -> RVal(k, BVXor(a, b))
         [] op = "andnot" -> RVal(k, BVAndNot(a, b))

CmpBy(op, eq, lt) ==        \* from "equal" and "less"
    CASE op = "eql" -> eq [] op = "neq" -> ~eq [] op = "lss" -> lt
      [] op = "leq" -> lt \/ eq [] op = "gtr" -> ~lt /\ ~eq [] op = "geq" -> ~lt

IntCmp(op, k, a, b) == RVal("bool", CmpBy(op, a = b, BVLess(a, b, KSigned(k))))

\* x << n, x >> n: n is a value of integer kind ck; a negative count panics
Shift(op, k, a, ck, n) ==
    IF BVCountNeg(n, KSigned(ck)) THEN RPanic("shift")
    ELSE IF op = "shl" THEN RVal(k, BVShl(a, n))
    ELSE RVal(k, BVShr(a, n, KSigned(k)))

IntUn(op, k, a) ==
    CASE op = "pos" -> RVal(k, a)
      [] op = "neg" -> RVal(k, BVNeg(a))
      [] op = "cpl" -> RVal(k, BVNot(a))

FVal(k, x) == IF x.c = "skip" THEN RSkip ELSE RVal(k, x)
FloatBin(op, k, a, b) ==
    CASE op = "add" -> FVal(k, FAdd(k, a, b))
      [] op = "sub" -> FVal(k, FSub(k, a, b))
      [] op = "mul" -> FVal(k, FMul(k, a, b))
      [] op = "quo" -> FVal(k, FQuo(k, a, b))
\* for floats "leq" is NOT "not gtr" (NaN): every ordered comparison is stated directly
FloatCmp(op, a, b) ==
    RVal("bool", CASE op = "eql" -> FEq(a, b)
                   [] op = "neq" -> ~FEq(a, b)
                   [] op = "lss" -> FLess(a, b)
                   [] op = "leq" -> FLess(a, b) \/ FEq(a, b)
                   [] op = "gtr" -> FLess(b, a)
                   [] op = "geq" -> FLess(b, a) \/ FEq(a, b))
FloatUn(op, k, a) == IF op = "pos" THEN RVal(k, a) ELSE RVal(k, FNeg(a))

RECURSIVE StrLess(_, _)     \* lexical byte-wise order
StrLess(a, b) == IF b = <<>> THEN FALSE
                 ELSE IF a = <<>> THEN TRUE
                 ELSE IF a[1] # b[1] THEN a[1] < b[1]
                 ELSE StrLess(Tail(a), Tail(b))
StrBin(op, a, b) == IF op = "add" THEN RVal("string", a \o b)
                    ELSE RVal("bool", CmpBy(op, a = b, StrLess(a, b)))

BoolBin(op, a, b) ==
    RVal("bool", CASE op = "eql" -> a = b [] op = "neq" -> a # b
                   [] op = "land" -> a /\ b [] op = "lor" -> a \/ b)

\* the operators of each kind
BinOpsOf(k) == IF k \in IntKinds THEN ArithOps \cup BitOps \cup CmpOps
               ELSE IF k \in FloatKinds THEN {"add", "sub", "mul", "quo"} \cup CmpOps
               ELSE IF k = "string" THEN {"add"} \cup CmpOps
               ELSE {"eql", "neq", "land", "lor"}
UnOpsOf(k) == IF k \in IntKinds THEN {"pos", "neg", "cpl"}
              ELSE IF k \in FloatKinds THEN {"pos", "neg"}
              ELSE IF k = "bool" THEN {"not"} ELSE {}

\* BinOp / Cmp / Logic of DESIGN 3.2 in one dispatcher: run-time result of  a op b
RunBin(op, k, a, b) ==
    IF k \in IntKinds THEN (IF op \in CmpOps THEN IntCmp(op, k, a, b) ELSE IntBin(op, k, a, b))
    ELSE IF k \in FloatKinds THEN (IF op \in CmpOps THEN FloatCmp(op, a, b) ELSE FloatBin(op, k, a, b))
    ELSE IF k = "string" THEN StrBin(op, a, b)
    ELSE BoolBin(op, a, b)

RunUn(op, k, a) ==
    IF k \in IntKinds THEN IntUn(op, k, a)
    ELSE IF k \in FloatKinds THEN FloatUn(op, k, a)
    ELSE RVal("bool", ~a)

---------------------------------------------------------------------------
(* compile-time meaning: typed constant operands *)

\* can the operand be written as a typed constant  T(c)?
Constable(k, v) == IF k \in FloatKinds THEN FConstable(v) ELSE TRUE

\* is the exact result of the constant expression representable in kind k?
IntExact(op, k, a, b) ==
    LET sg == KSigned(k) IN
    CASE op = "add" -> BVAddExact(a, b, sg)
      [] op = "sub" -> BVSubExact(a, b, sg)
      [] op = "mul" -> BVMulExact(a, b, sg)
      [] op = "quo" -> BVQuoExact(a, b, sg)
      [] OTHER -> TRUE          \* rem, and, or, xor, andnot and comparisons never overflow

\* constant folding of floats is exact arithmetic on numbers: a zero result is +0, an
\* overflowing result is rejected; an inexact result stays outside the domain
FloatFold(r) ==
    IF r[1] # "v" \/ r[2] = "bool" THEN r
    ELSE IF r[3].c = "inf" THEN RCErr("overflow")
    ELSE IF r[3].c = "zero" THEN RVal(r[2], FZero(0))
    ELSE r

\* result of  a op b  in the given shape; rt = RunBin(op, k, a, b) is passed in so that
\* the enumeration computes the limb arithmetic once for the four shapes
EvalBinR(op, k, shape, a, b, rt) ==
    LET isdiv == op \in {"quo", "rem"}
        bzero == IF k \in IntKinds THEN b = BVZero(KWidth(k))
                 ELSE IF k \in FloatKinds THEN b.c = "zero" ELSE FALSE
    IN CASE shape = "vv" -> rt
         [] shape = "cL" -> IF ~Constable(k, a) THEN RSkip ELSE rt
         [] shape = "cR" -> IF ~Constable(k, b) THEN RSkip
                            \* "if the divisor is a constant it must not be zero" applies to
                            \* integer operands (and to constant expressions of any type)
                            ELSE IF isdiv /\ bzero /\ k \in IntKinds THEN RCErr("divzero")
                            ELSE rt
         [] shape = "cc" -> IF ~Constable(k, a) \/ ~Constable(k, b) THEN RSkip
                            ELSE IF isdiv /\ bzero THEN RCErr("divzero")
                            \* MinInt64 / -1 as a CONSTANT expression: the Go specification says
                            \* overflow, the Go toolchain (go/constant, int64 fast path) accepts it
                            \* with the wrapped value; the case is left out of the domain
                            ELSE IF k \in IntKinds /\ op = "quo" /\ KWidth(k) = 8 /\ ~BVQuoExact(a, b, KSigned(k)) THEN RSkip
                            ELSE IF k \in IntKinds THEN
                                 (IF IntExact(op, k, a, b) THEN rt ELSE RCErr("overflow"))
                            ELSE IF k \in FloatKinds THEN FloatFold(rt)
                            ELSE rt

EvalBin(op, k, shape, a, b) == EvalBinR(op, k, shape, a, b, RunBin(op, k, a, b))

\* x << n / x >> n with x of kind k and n of kind ck
\* Compilers bound the count of a CONSTANT shift of a CONSTANT (gc: 1074); counts of 512
\* and more are outside the generated domain in shape "cc"
CountHuge(n) == \E i \in 2..Len(n) : (i = 2 /\ n[i] >= 2) \/ (i > 2 /\ n[i] # 0)
EvalShiftR(op, k, ck, shape, a, n, rt) ==
    LET neg == BVCountNeg(n, KSigned(ck))
    IN CASE shape = "vv" -> rt
         [] shape = "cL" -> rt
         [] shape = "cR" -> IF neg THEN RCErr("negshift") ELSE rt
         [] shape = "cc" -> IF neg THEN RCErr("negshift")
                            ELSE IF CountHuge(n) THEN RSkip
                            ELSE IF op = "shl" /\ ~BVShlExact(a, n, KSigned(k)) THEN RCErr("overflow")
                            ELSE rt

EvalShift(op, k, ck, shape, a, n) == EvalShiftR(op, k, ck, shape, a, n, Shift(op, k, a, ck, n))

\* unary operators; shape "vv" = variable operand, "cc" = constant operand.
\* ^x on an unsigned constant is defined with the mask of the type: never overflows;
\* -x overflows for MinInt and for every non-zero unsigned constant.
EvalUnR(op, k, shape, a, rt) ==
    IF shape = "vv" THEN rt
    ELSE IF ~Constable(k, a) THEN RSkip
    ELSE IF k \in IntKinds /\ op = "neg" /\ ~BVNegExact(a, KSigned(k)) THEN RCErr("overflow")
    ELSE IF k \in FloatKinds THEN FloatFold(rt)
    ELSE rt
EvalUn(op, k, shape, a) == EvalUnR(op, k, shape, a, RunUn(op, k, a))

---------------------------------------------------------------------------
(* The algebraic rewrites an implementation may use instead of the plain    *)
(* operator (gomacro: fast/binary_ops.go mulPow2, quoPow2, remPow2 and the   *)
(* identity shortcuts), written as separate operators.  (M): each equals    *)
(* the plain operator (Expr.tla, invariant ShortcutsOK).                    *)

\* 2^j as a K-byte value (j < 8K)
BVPow2At(K, j) == BVShlN(BVFromNat(K, 1), j)

\* x * 2^j  ==  x << j ;  x * -(2^j)  ==  -(x << j)
MulPow2(a, j, negdiv) == IF negdiv THEN BVNeg(BVShlN(a, j)) ELSE BVShlN(a, j)

\* signed x / 2^j: add 2^j - 1 to a negative dividend (the fix-up), then shift
\* arithmetically; for a negative divisor negate.  fix = FALSE is the BROKEN variant.
QuoPow2(a, j, sg, negdiv, fix) ==
    LET K  == Len(a)
        n  == IF sg /\ fix /\ BVIsNeg(a) THEN BVAdd(a, BVSub(BVPow2At(K, j), BVFromNat(K, 1))) ELSE a
        q  == BVShrN(n, j, sg)
    IN IF negdiv THEN BVNeg(q) ELSE q

\* x % 2^j (either sign of the divisor): mask; a negative dividend is negated around the mask
RemPow2(a, j, sg) ==
    LET K    == Len(a)
        mask == BVSub(BVPow2At(K, j), BVFromNat(K, 1))
    IN IF sg /\ BVIsNeg(a) THEN BVNeg(BVAnd(BVNeg(a), mask)) ELSE BVAnd(a, mask)
=============================================================================

------------------------------ MODULE Generic ------------------------------
(***************************************************************************)
(* C35: generic instantiation behaves like textual specialisation and is   *)
(* memoised.                                                               *)
(*                                                                         *)
(* TYPE EXPRESSIONS (the arguments of an instantiation) are syntax trees   *)
(*   <<"b", name>>          predeclared type (byte, rune are the universe's *)
(*                          aliases of uint8, int32)                        *)
(*   <<"al", name, t>>      alias declared at top level:  type name = t     *)
(*   <<"lo", name, t>>      alias declared inside the using function        *)
(*   <<"nm", name>>         defined (named) type:  type name ...            *)
(*   <<"pa", t>>            parenthesised spelling (t)                      *)
(*   <<"sl", t>> <<"pt", t>> <<"st", t>> <<"mp", k, t>>                     *)
(*                          []t   *t   struct{ A t }   map[k]t              *)
(* Canon(t) is the normal form (a string): aliases and parentheses removed; *)
(* Identical(t, u) is the relation of the Go specification ("Type          *)
(* identity"), defined by structural recursion independently of Canon.     *)
(* The INSTANTIATION KEY of an argument list is the tuple of normal forms; *)
(* SameInstance(k1, k2) == k1 = k2.                                        *)
(* (M) KeyInjective: on all pairs of argument lists, equal keys <=>        *)
(* pointwise identical types.  KeyBroken = TRUE (key ignoring the second   *)
(* argument) is the broken variant.                                        *)
(*                                                                         *)
(* TEMPLATES are small generic declarations over one or two type           *)
(* parameters.  Values are opaque TOKENS <<normal form of the type, i>>    *)
(* (i = 0 is the zero value); the renderer owns their concrete spelling.   *)
(* Subst(template, args) = the hand-specialised copy is produced by the    *)
(* renderer from the same template text; the model gives the meaning:      *)
(*   Id[T](x T) T                      x                                   *)
(*   Swap[T,U](a T, b U) (U, T)        b, a                                *)
(*   MapSl[T,U](s []T, f func(T) U) []U   f applied elementwise            *)
(*   Rep[T](x T, n int) ([]T, int)     x appended n times, and the length  *)
(*   Last[T](xs []T, d T) T            last element, d if empty            *)
(*   Pair[T,U] struct{First T; Second U}  with MkP, Fst, Snd and a use     *)
(*                                     through a zero-valued variable      *)
(* A BEHAVIOUR is a template and a sequence of USES [args, scope, values]; *)
(* its expectation: the outputs of every use, which uses denote the same   *)
(* instance, and the number of distinct instances.                         *)
(***************************************************************************)
EXTENDS Naturals, Sequences, FiniteSets, TLC, Json

CONSTANTS GMode,      \* "bfs" | "sim" | "m"
          GLevel,     \* 1 quick | 2 thorough: size of the argument menus
          NUses,      \* uses per behaviour
          GSalt,      \* bfs: rotates the derived scopes / values / counts (from the seed)
          KeyBroken   \* FALSE = specification; TRUE = key ignores the second argument

VARIABLES beh
gvars == <<beh>>

---------------------------------------------------------------------------
(* type expressions *)

TB(n) == <<"b", n>>
TInt == TB("int")
TStr == TB("string")
AI   == <<"al", "AI", TInt>>                  \* type AI = int
AS   == <<"al", "AS", <<"sl", TInt>>>>        \* type AS = []int
AAI  == <<"al", "AAI", AI>>                   \* type AAI = AI
AStr == <<"al", "AStr", TStr>>                \* type AStr = string
LI   == <<"lo", "LI", TInt>>                  \* (local) type LI = int
LS   == <<"lo", "LS", TStr>>                  \* (local) type LS = string
LSL  == <<"lo", "LSL", <<"sl", AI>>>>         \* (local) type LSL = []AI
NI   == <<"nm", "NI">>                        \* type NI int
NS   == <<"nm", "NS">>                        \* type NS struct{ A int }

RECURSIVE Canon(_)
Canon(t) ==
    CASE t[1] = "b"  -> (IF t[2] = "byte" THEN "uint8" ELSE IF t[2] = "rune" THEN "int32" ELSE t[2])
      [] t[1] \in {"al", "lo"} -> Canon(t[3])
      [] t[1] = "nm" -> t[2]
      [] t[1] = "pa" -> Canon(t[2])
      [] t[1] = "sl" -> "[]" \o Canon(t[2])
      [] t[1] = "pt" -> "*" \o Canon(t[2])
      [] t[1] = "st" -> "struct{A " \o Canon(t[2]) \o "}"
      [] t[1] = "mp" -> "map[" \o Canon(t[2]) \o "]" \o Canon(t[3])

\* Go specification, "Type identity": an alias denotes the type it is declared for; a
\* defined type is identical only to itself; composite types are identical if their
\* constructors agree and their component types are identical
RECURSIVE Denoted(_)
Denoted(t) == IF t[1] \in {"al", "lo"} THEN Denoted(t[3])
              ELSE IF t[1] = "pa" THEN Denoted(t[2])
              ELSE IF t[1] = "b" /\ t[2] = "byte" THEN TB("uint8")
              ELSE IF t[1] = "b" /\ t[2] = "rune" THEN TB("int32")
              ELSE t
RECURSIVE Identical(_, _)
Identical(t, u) ==
    LET a == Denoted(t)
        b == Denoted(u)
    IN /\ a[1] = b[1]
       /\ CASE a[1] \in {"b", "nm"} -> a[2] = b[2]
            [] a[1] \in {"sl", "pt", "st"} -> Identical(a[2], b[2])
            [] a[1] = "mp" -> Identical(a[2], b[2]) /\ Identical(a[3], b[3])

RECURSIVE HasLocal(_)
HasLocal(t) == CASE t[1] = "lo" -> TRUE
                 [] t[1] \in {"b", "nm"} -> FALSE
                 [] t[1] = "al" -> HasLocal(t[3])
                 [] t[1] = "mp" -> HasLocal(t[2]) \/ HasLocal(t[3])
                 [] OTHER -> HasLocal(t[2])

\* the instantiation key
Key(args) == IF KeyBroken /\ Len(args) = 2 THEN <<Canon(args[1])>>
             ELSE [i \in 1..Len(args) |-> Canon(args[i])]
SameInstance(k1, k2) == k1 = k2

---------------------------------------------------------------------------
(* argument menus *)

\* first type parameter: the bounded-exhaustive menus (quick, thorough) and what simulation
\* adds to them
Menu1Q == <<TInt, AI, LI, NI, <<"sl", <<"pa", AI>>>>, AS>>
Menu1T == <<TStr, <<"sl", TInt>>, TB("byte"), TB("uint8")>>
Menu1S == <<<<"mp", AStr, AI>>, <<"st", AI>>, AAI, <<"pa", TInt>>, LSL, <<"pt", TInt>>, <<"pt", LI>>, <<"mp", TStr, TInt>>, <<"st", TInt>>, NS, TB("float64"),
            <<"sl", NI>>, TB("rune"), TB("int32"), <<"sl", <<"sl", TInt>>>>, <<"sl", AS>>, AStr, LS>>
Menu1 == IF GMode \in {"sim", "m"} THEN Menu1Q \o Menu1T \o Menu1S ELSE IF GLevel >= 2 THEN Menu1Q \o Menu1T ELSE Menu1Q
\* second type parameter
Menu2Q == <<TStr, AStr, TInt>>
Menu2T == <<LS, NI>>
Menu2S == <<TB("bool"),<<"sl", TStr>>, <<"sl", AStr>>, AI, <<"pa", TStr>>, <<"mp", TInt, TStr>>, <<"mp", AI, LS>>, TB("float64"), LI>>
Menu2 == IF GMode \in {"sim", "m"} THEN Menu2Q \o Menu2T \o Menu2S ELSE IF GLevel >= 2 THEN Menu2Q \o Menu2T ELSE Menu2Q

Templates == <<"Id", "Swap", "MapSl", "Rep", "Last", "Pair">>
Arity(t) == IF t \in {"Swap", "MapSl", "Pair"} THEN 2 ELSE 1
PairOps == <<"mk", "fst", "snd", "zero">>

ArgLists(t) == IF Arity(t) = 1 THEN {<<Menu1[i]>> : i \in 1..Len(Menu1)}
               ELSE {<<Menu1[i], Menu2[j]>> : i \in 1..Len(Menu1), j \in 1..Len(Menu2)}

\* where the instantiation is written: top-level statement | body of a declared function |
\* function literal nested in a declared function | a block inside a function
Scopes == <<"top", "fn", "cl", "blk">>
ScopeOK(args, sc) == (\E i \in 1..Len(args) : HasLocal(args[i])) => sc # "top"

---------------------------------------------------------------------------
(* meaning of a use: tokens in, tokens out *)

Tok(ty, i) == [k |-> "tok", ty |-> ty, i |-> i]
SeqOf(ty, is, isnil) == [k |-> "seq", ty |-> ty, is |-> is, nil |-> isnil]
PairOf(a, b) == [k |-> "pair", a |-> a, b |-> b]
IntOf(n) == [k |-> "int", n |-> n]

\* the function argument of MapSl, on token indices: 1 -> 2, 2 -> 1 (and 0 -> 1)
FTok(i) == IF i = 1 THEN 2 ELSE 1

\* a use: [args, scope, v |-> <<i1, i2>> token indices, n |-> a small count, op |-> Pair operation]
Outs(t, u) ==
    LET c1 == Canon(u.args[1])
        c2 == IF Len(u.args) = 2 THEN Canon(u.args[2]) ELSE ""
        xs == SubSeq(u.v, 1, u.n)
    IN CASE t = "Id"    -> <<Tok(c1, u.v[1])>>
         [] t = "Swap"  -> <<Tok(c2, u.v[2]), Tok(c1, u.v[1])>>
         [] t = "MapSl" -> <<SeqOf(c2, [j \in 1..u.n |-> FTok(xs[j])], FALSE)>>
         [] t = "Rep"   -> <<SeqOf(c1, [j \in 1..u.n |-> u.v[1]], u.n = 0), IntOf(u.n)>>
         [] t = "Last"  -> <<IF u.n = 0 THEN Tok(c1, u.v[2]) ELSE Tok(c1, xs[u.n])>>
         [] t = "Pair"  -> CASE u.op = "mk"   -> <<PairOf(Tok(c1, u.v[1]), Tok(c2, u.v[2]))>>
                             [] u.op = "fst"  -> <<Tok(c1, u.v[1])>>
                             [] u.op = "snd"  -> <<Tok(c2, u.v[2])>>
                             [] u.op = "zero" -> <<PairOf(Tok(c1, 0), Tok(c2, u.v[2]))>>

\* a canonical numbering of the argument lists (for the salt)
ArgIdx(t, a) == CHOOSE i \in 1..(Len(Menu1) * (IF Arity(t) = 2 THEN Len(Menu2) ELSE 1)) :
                   LET i1 == ((i - 1) % Len(Menu1)) + 1
                       i2 == ((i - 1) \div Len(Menu1)) + 1
                   IN a = (IF Arity(t) = 2 THEN <<Menu1[i1], Menu2[i2]>> ELSE <<Menu1[i1]>>)

\* BFS enumerates every sequence of argument lists; it does not take the product with scopes,
\* values and counts: those are derived from the position and the earlier choices (salt)
UseAt(t, a, pos, salt) ==
    LET h == pos * 577 + salt + ArgIdx(t, a) * 101
        sc0 == Scopes[(h % Len(Scopes)) + 1]
        sc == IF ScopeOK(a, sc0) THEN sc0 ELSE Scopes[(((h \div 4) % 3) + 2)]
    IN [args |-> a, scope |-> sc, v |-> <<((h \div 12) % 2) + 1, ((h \div 24) % 2) + 1>>, n |-> (h \div 48) % 3,
        op |-> IF t = "Pair" THEN PairOps[((h \div 144) % Len(PairOps)) + 1] ELSE "-"]

---------------------------------------------------------------------------
(* behaviours *)

GInit == beh = [t |-> "", uses |-> <<>>, salt |-> 0]

GNextBfs ==
    \/ /\ beh.t = ""
       /\ \E i \in 1..Len(Templates) : beh' = [t |-> Templates[i], uses |-> <<>>, salt |-> (i * 1237 + GSalt * 7919) % 9973]
    \/ /\ beh.t # "" /\ Len(beh.uses) < NUses
       /\ \E a \in ArgLists(beh.t) :
             beh' = [beh EXCEPT !.uses = Append(@, UseAt(beh.t, a, Len(beh.uses), beh.salt)),
                                !.salt = (beh.salt * 131 + ArgIdx(beh.t, a) * 37) % 9973]

RandUse(t) ==
    LET a1 == Menu1[RandomElement(1..Len(Menu1))]
        a2 == Menu2[RandomElement(1..Len(Menu2))]
        a  == IF Arity(t) = 2 THEN <<a1, a2>> ELSE <<a1>>
        sc == Scopes[RandomElement(1..Len(Scopes))]
    IN [args |-> a, scope |-> IF ScopeOK(a, sc) THEN sc ELSE "fn", v |-> <<RandomElement(1..2), RandomElement(1..2)>>,
        n |-> RandomElement(0..2), op |-> IF t = "Pair" THEN PairOps[RandomElement(1..Len(PairOps))] ELSE "-"]

\* simulation: a behaviour often repeats an earlier argument list in another spelling, so
\* draw the next use either fresh or as a re-spelling of an earlier one
Respell(t) ==
    CASE t = TInt -> RandomElement({AI, AAI, LI, <<"pa", TInt>>, TInt})
      [] t = AI   -> RandomElement({TInt, LI, AAI})
      [] t = LI   -> RandomElement({TInt, AI})
      [] t = TStr -> RandomElement({AStr, LS, <<"pa", TStr>>})
      [] t = AStr -> RandomElement({TStr, LS})
      [] t = LS   -> RandomElement({TStr, AStr})
      [] t = <<"sl", TInt>> -> RandomElement({AS, <<"sl", AI>>, <<"sl", <<"pa", AI>>>>, LSL})
      [] t = AS   -> RandomElement({<<"sl", TInt>>, <<"sl", LI>>, LSL})
      [] t = TB("byte") -> TB("uint8")
      [] t = TB("uint8") -> TB("byte")
      [] t = NI -> RandomElement({NI, TInt})
      [] OTHER -> t
RandUseAfter(t, uses) ==
    IF uses = <<>> \/ RandomElement(1..3) = 1 THEN RandUse(t)
    ELSE LET u == uses[RandomElement(1..Len(uses))]
             a == [i \in 1..Len(u.args) |-> Respell(u.args[i])]
             sc == Scopes[RandomElement(1..Len(Scopes))]
         IN [RandUse(t) EXCEPT !.args = a, !.scope = IF ScopeOK(a, sc) THEN sc ELSE "cl"]

GNextSim ==
    \/ /\ beh.t = ""
       /\ \E i \in 1..Len(Templates) : beh' = [t |-> Templates[i], uses |-> <<>>, salt |-> 0]
    \/ /\ beh.t # "" /\ Len(beh.uses) < NUses
       /\ beh' = [beh EXCEPT !.uses = Append(@, RandUseAfter(beh.t, beh.uses))]
    \/ /\ beh.t # "" /\ Len(beh.uses) = NUses
       /\ \E i \in 1..Len(Templates) : beh' = [t |-> Templates[i], uses |-> <<>>, salt |-> 0]

\* (M): fan out over the templates; the injectivity law is checked per template
GNextM ==
    /\ beh.t = ""
    /\ \E i \in 1..Len(Templates) : beh' = [t |-> Templates[i], uses |-> <<>>, salt |-> 0]

GNext == IF GMode = "sim" THEN GNextSim ELSE IF GMode = "bfs" THEN GNextBfs ELSE GNextM
GSpec == GInit /\ [][GNext]_gvars

---------------------------------------------------------------------------
(* the record printed for a complete behaviour *)

KeySeq(b) == [i \in 1..Len(b.uses) |-> Key(b.uses[i].args)]

Expect(b) ==
    LET ks == KeySeq(b) IN
    [t |-> b.t,
     uses |-> [i \in 1..Len(b.uses) |->
                 [args |-> b.uses[i].args, canon |-> [j \in 1..Len(b.uses[i].args) |-> Canon(b.uses[i].args[j])],
                  key |-> ks[i], scope |-> b.uses[i].scope, v |-> b.uses[i].v, n |-> b.uses[i].n, op |-> b.uses[i].op,
                  out |-> Outs(b.t, b.uses[i]),
                  \* first earlier use denoting the same instance (0 = a new instance)
                  sameas |-> IF \E j \in 1..(i - 1) : SameInstance(ks[j], ks[i])
                             THEN CHOOSE j \in 1..(i - 1) : SameInstance(ks[j], ks[i]) /\ \A x \in 1..(j - 1) : ~SameInstance(ks[x], ks[i])
                             ELSE 0]],
     ninst |-> Cardinality({ks[i] : i \in 1..Len(ks)})]

GEmit == IF GMode # "m" /\ beh.t # "" /\ Len(beh.uses) = NUses THEN PrintT(ToJson(Expect(beh))) ELSE TRUE

GTypeOK == /\ beh.t \in {""} \cup {Templates[i] : i \in 1..Len(Templates)}
           /\ Len(beh.uses) <= NUses
           /\ \A i \in 1..Len(beh.uses) : Len(beh.uses[i].args) = Arity(beh.t) /\ ScopeOK(beh.uses[i].args, beh.uses[i].scope)

---------------------------------------------------------------------------
(* (M) the key is injective modulo type identity *)

KeyInjective ==
    (GMode = "m" /\ beh.t # "") =>
        \A x \in ArgLists(beh.t) : \A y \in ArgLists(beh.t) :
            SameInstance(Key(x), Key(y)) <=> (\A i \in 1..Len(x) : Identical(x[i], y[i]))

\* the normal form is a fixpoint and agrees with identity on the menus; aliases and different
\* spellings really occur (the law is not vacuous)
KeyNonVacuous ==
    (GMode = "m" /\ beh.t = "") =>
        /\ Key(<<AI, AStr>>) = Key(<<TInt, TStr>>) /\ Key(<<LI, LS>>) = Key(<<AAI, <<"pa", TStr>>>>)
        /\ Key(<<AS>>) = Key(<<<<"sl", <<"pa", AI>>>>>>) /\ Key(<<TB("byte")>>) = Key(<<TB("uint8")>>)
        /\ Key(<<NI>>) # Key(<<TInt>>) /\ Key(<<<<"sl", NI>>>>) # Key(<<AS>>)
        /\ (~KeyBroken => Key(<<TInt, TStr>>) # Key(<<TInt, TInt>>))
        /\ Key(<<NS>>) # Key(<<<<"st", TInt>>>>)
=============================================================================

--------------------------- MODULE ClassicSubset ---------------------------
(***************************************************************************)
(* The documented subset of the classic interpreter (classic/README.md,    *)
(* property C38) as a predicate over the behaviours of Defer.tla:          *)
(* default-typed int values, functions and closures, defer / panic /       *)
(* recover, named results; NO comparison of an interface value with nil    *)
(* (interpreted interfaces are "not functional" in classic), hence no      *)
(* `deferrec` operation, whose closure tests `r != nil`.                   *)
(* The expected observations are Defer.tla's own: the subset only          *)
(* restricts which programs are generated.                                 *)
(***************************************************************************)
EXTENDS Defer

ClassicDeferOps == {"L", "call", "defer", "deferloop", "deferclo", "deferev", "rec", "panic", "set", "ret", "spin"}

InClassicSubset == \A f \in Funs : \A i \in 1..Len(body[f]) : body[f][i].k \in ClassicDeferOps
=============================================================================

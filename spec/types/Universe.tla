------------------------------ MODULE Universe ------------------------------
(***************************************************************************)
(* The type universe of gomacro's xreflect package (universe.go, type.go,   *)
(* composite.go, function.go, struct.go, named.go, fromreflect.go,          *)
(* lookup.go): a cache of type objects keyed by type identity, the          *)
(* constructors that go through it, and the attributes and predicates a     *)
(* type object answers.                                                     *)
(*                                                                          *)
(* Terms, identity (Id) and the package / exported-name conventions are     *)
(* those of TypeId (C28), which this module EXTENDS.  Named terms refer to  *)
(* the declaration table UDecl of THIS module (TypeId's Id only compares    *)
(* declaration numbers); interface terms never embed declarations, so the   *)
(* "gm" and "go" identity rules coincide on every term used here.           *)
(*                                                                          *)
(* Part 1  declarations: Go-origin (a compiled Go type exists, obtained     *)
(*         with FromReflectType) and interpreter-origin (NamedOf +          *)
(*         SetUnderlying + AddMethod); the pool of reflect types.           *)
(* Part 2  attributes by the amd64 layout rules: kind, size, alignment,     *)
(*         field offsets with padding, string form (as go/types and as      *)
(*         reflect print it), method sets with promotion through embedded   *)
(*         fields, field / method lookup with the depth rule.               *)
(* Part 3  predicates by the Go specification: AssignableTo,                *)
(*         ConvertibleTo, Comparable, Implements.                           *)
(* Part 4  the universe: objs (the objects handed out so far, an object id  *)
(*         is a position), the cache lookup by identity class, one action   *)
(*         per constructor / accessor, a history variable recording for     *)
(*         every call the object returned and the model's observation of    *)
(*         that object (attributes, predicate rows against every earlier    *)
(*         object).                                                         *)
(* Part 5  invariants (M): canonicity, faithfulness, layout laws, predicate *)
(*         laws.  Broken variants: "chan-dir" (cache key forgets the        *)
(*         channel direction), "no-padding" (struct layout without          *)
(*         alignment padding).                                              *)
(***************************************************************************)
EXTENDS TypeId

CONSTANTS MaxObjs,    \* bound on the number of objects
          Menu        \* which constructor arguments are offered: "bfs1", "bfs2" (exhaustive, "q" = the
                      \* narrower pools of the quick tier), "bfs3", "bfs4" (exhaustive after a
                      \* scripted prefix), "sim", "simd" (sampling)

VARIABLES objs,       \* sequence of terms: the objects returned so far
          dst         \* declaration state: [o \in 1..NDecl |-> [st |-> 0..2, nm |-> methods added]]

uvars == <<cur, row, m, hist, objs, dst>>

---------------------------------------------------------------------------
(* Part 1: declarations and the reflect pool *)

\* TypeId's package numbers: 1 = the package of the compiled test types, 3 = the package of
\* the interpreter-declared types (2 is not used here).
UPkgPath(p) == CASE p = 1 -> "verif/harness/c29t" [] p = 3 -> "x/q" [] OTHER -> ""
UPkgName(p) == CASE p = 1 -> "c29t" [] p = 3 -> "q" [] OTHER -> ""

I64  == Basic("int64", FALSE)
Bool == Basic("bool", FALSE)
F64  == Basic("float64", FALSE)
I32  == Basic("int32", FALSE)

DM(n, p, ptr, sig) == [name |-> n, pkg |-> p, ptr |-> ptr, sig |-> sig]
FInt == Func(<<TInt>>, <<>>, FALSE)
StAB == Struct(<<Fld("A", 1, FALSE, "", I8), Fld("B", 1, FALSE, "", I64)>>)
IfM  == Iface(<<Mth("M", 1, F0)>>, <<>>)
IfMN == Iface(<<Mth("M", 1, F0), Mth("N", 1, FInt)>>, <<>>)
IfErr == Iface(<<Mth("Error", 0, Func(<<>>, <<Str>>, FALSE))>>, <<>>)

\* origin "go": a compiled Go type of package c29t exists (harness/c29t/types.go must agree: gated);
\* origin "interp": declared through the universe with NamedOf, SetUnderlying, AddMethod.
UDecl == <<
  [name |-> "N1", pkg |-> 1, origin |-> "go", und |-> TInt, methods |-> <<DM("M", 1, FALSE, F0)>>],            \* 1
  [name |-> "N2", pkg |-> 1, origin |-> "go", und |-> TInt, methods |-> <<>>],                                \* 2
  [name |-> "S1", pkg |-> 1, origin |-> "go", und |-> StAB,
       methods |-> <<DM("M", 1, TRUE, F0), DM("N", 1, FALSE, FInt)>>],                                        \* 3
  [name |-> "E1", pkg |-> 1, origin |-> "go", und |-> IfM, methods |-> <<>>],                                 \* 4
  [name |-> "error", pkg |-> 0, origin |-> "go", und |-> IfErr, methods |-> <<>>],                            \* 5
  [name |-> "T1", pkg |-> 3, origin |-> "interp", und |-> TInt, methods |-> <<DM("M", 3, FALSE, F0)>>],        \* 6
  [name |-> "R1", pkg |-> 3, origin |-> "interp", und |-> TInt, methods |-> <<>>],                            \* 7
  [name |-> "R2", pkg |-> 3, origin |-> "interp", und |-> StAB,
       methods |-> <<DM("M", 3, TRUE, F0), DM("N", 3, FALSE, FInt)>>],                                        \* 8
  [name |-> "E2", pkg |-> 3, origin |-> "interp",
       und |-> Struct(<<Fld("N1", 1, TRUE, "", Named(1, 1)), Fld("B", 3, FALSE, "", I8)>>), methods |-> <<>>], \* 9
  [name |-> "E3", pkg |-> 3, origin |-> "interp",
       und |-> Struct(<<Fld("S1", 1, TRUE, "", Ptr(Named(3, 1))), Fld("T1", 3, TRUE, "", Named(6, 1))>>),
       methods |-> <<DM("K", 3, FALSE, F0)>>],                                                                \* 10
  [name |-> "E4", pkg |-> 1, origin |-> "go", und |-> Iface(<<>>, <<>>), methods |-> <<>>] >>                \* 11: a named empty interface
NDecl == Len(UDecl)
GoDecls == {o \in 1..NDecl : UDecl[o].origin = "go"}
InterpDecls == {o \in 1..NDecl : UDecl[o].origin = "interp"}
UN(o) == Named(o, 1)

\* the pool of compiled types FromReflectType is applied to (harness/props/c29.go holds the
\* reflect.Type of every entry, in this order: gated)
RPool == <<
  TInt, I8, I64, Str, Bool, U8, F64,                                  \*  1..7
  UN(1), UN(2), UN(3), UN(4), UN(5),                                  \*  8..12
  Slice(TInt), Ptr(UN(1)), Arr(3, I8), MapT(Str, TInt),               \* 13..16
  Chan(0, TInt), Chan(2, TInt), Func(<<TInt>>, <<Str>>, FALSE),       \* 17..19
  Func(<<Slice(TInt)>>, <<>>, TRUE), StAB, Iface(<<>>, <<>>), IfM,    \* 20..23
  Ptr(UN(3)), Slice(UN(1)),                                           \* 24..25
  Struct(<<Fld("N1", 1, TRUE, "", UN(1)), Fld("b", 1, FALSE, "", I8)>>),        \* 26
  Struct(<<Fld("A", 1, FALSE, "t", I8), Fld("B", 1, FALSE, "", I64)>>),         \* 27
  MapT(UN(1), Ptr(UN(3))), Func(<<UN(1)>>, <<UN(5)>>, FALSE),         \* 28..29
  IfMN, Struct(<<>>), Arr(0, TInt),                                   \* 30..32
  Struct(<<Fld("A", 1, FALSE, "", I64), Fld("B", 1, FALSE, "", Struct(<<>>))>>),  \* 33
  UN(11) >>                                                           \* 34
NPool == Len(RPool)

UUnd(t) == IF t.k = "named" THEN UDecl[t.obj].und ELSE t

\* declarations a term mentions (through the underlying types of the declarations too)
RECURSIVE UDeclsOf(_)
USeqDecls(ts) == UNION {UDeclsOf(ts[i]) : i \in 1..Len(ts)}
UDeclsOf(t) ==
    CASE t.k = "basic" -> {}
      [] t.k = "named" -> {t.obj} \cup UDeclsOf(UDecl[t.obj].und)
                          \cup UNION {UDeclsOf(UDecl[t.obj].methods[i].sig) : i \in 1..Len(UDecl[t.obj].methods)}
      [] t.k \in {"ptr", "slice", "array", "chan"} -> UDeclsOf(t.elem)
      [] t.k = "map" -> UDeclsOf(t.key) \cup UDeclsOf(t.elem)
      [] t.k = "func" -> USeqDecls(t.params) \cup USeqDecls(t.results)
      [] t.k = "struct" -> UNION {UDeclsOf(t.fields[i].typ) : i \in 1..Len(t.fields)}
      [] t.k = "iface" -> UNION {UDeclsOf(t.methods[i].sig) : i \in 1..Len(t.methods)}

UInterp(t) == UDeclsOf(t) \cap InterpDecls # {}

\* the term with every interpreter-declared name replaced by its underlying type: what a
\* reflect.Type can express of it (reflect has no NamedOf).  Used only to CLASSIFY
\* disagreements (a predicate answered as if the names were erased), never as an expectation.
RECURSIVE UErase(_)
UEraseSeq(ts) == [i \in 1..Len(ts) |-> UErase(ts[i])]
UErase(t) ==
    CASE t.k = "basic" -> t
      [] t.k = "named" -> IF UDecl[t.obj].origin = "interp" THEN UErase(UDecl[t.obj].und) ELSE t
      [] t.k \in {"ptr", "slice", "array", "chan"} -> [t EXCEPT !.elem = UErase(t.elem)]
      [] t.k = "map" -> [t EXCEPT !.key = UErase(t.key), !.elem = UErase(t.elem)]
      [] t.k = "func" -> [t EXCEPT !.params = UEraseSeq(t.params), !.results = UEraseSeq(t.results)]
      [] t.k = "struct" -> [t EXCEPT !.fields = [i \in 1..Len(t.fields) |->
                                     [t.fields[i] EXCEPT !.typ = UErase(t.fields[i].typ)]]]
      [] t.k = "iface" -> [t EXCEPT !.methods = [i \in 1..Len(t.methods) |->
                                     [t.methods[i] EXCEPT !.sig = UErase(t.methods[i].sig)]]]

---------------------------------------------------------------------------
(* Part 2: attributes *)

UBSize(kind) ==
    CASE kind \in {"bool", "int8", "uint8"} -> 1
      [] kind \in {"int16", "uint16"} -> 2
      [] kind \in {"int32", "float32"} -> 4
      [] kind \in {"int", "int64", "float64"} -> 8
      [] kind = "string" -> 16

UMax(S) == CHOOSE x \in S : \A y \in S : y <= x
RoundUp(x, a) == ((x + a - 1) \div a) * a

RECURSIVE USize(_), UAlign(_), UOffsets(_, _, _)

UAlign(t) ==
    CASE t.k = "basic" -> IF t.kind = "string" THEN 8 ELSE UBSize(t.kind)
      [] t.k = "named" -> UAlign(UDecl[t.obj].und)
      [] t.k \in {"ptr", "slice", "map", "chan", "func", "iface"} -> 8
      [] t.k = "array" -> UAlign(t.elem)
      [] t.k = "struct" -> UMax({1} \cup {UAlign(t.fields[i].typ) : i \in 1..Len(t.fields)})

\* offsets of fields i.. when the first free byte is c
UOffsets(fs, i, c) ==
    IF i > Len(fs) THEN <<>>
    ELSE LET off == IF Broken = "no-padding" THEN c ELSE RoundUp(c, UAlign(fs[i].typ))
         IN <<off>> \o UOffsets(fs, i + 1, off + USize(fs[i].typ))

USize(t) ==
    CASE t.k = "basic" -> UBSize(t.kind)
      [] t.k = "named" -> USize(UDecl[t.obj].und)
      [] t.k \in {"ptr", "map", "chan", "func"} -> 8
      [] t.k = "iface" -> 16
      [] t.k = "slice" -> 24
      [] t.k = "array" -> t.len * USize(t.elem)
      [] t.k = "struct" ->
           IF t.fields = <<>> THEN 0
           ELSE LET n == Len(t.fields)
                    offs == UOffsets(t.fields, 1, 0)
                    last == USize(t.fields[n].typ)
                    end == offs[n] + last
                    \* a final zero-size field is padded so that its address stays inside
                    end2 == IF last = 0 /\ end > 0 THEN end + 1 ELSE end
                IN IF Broken = "no-padding" THEN end ELSE RoundUp(end2, UAlign(t))

UKind(t) ==
    LET u == UUnd(t)
    IN CASE u.k = "basic" -> u.kind
         [] u.k = "iface" -> "interface"
         [] OTHER -> u.k

\* string forms: style "g" as go/types prints (qualified by package path), "r" as reflect
\* prints (qualified by package name, blanks inside struct / interface braces)
RECURSIVE UStr(_, _), UStrList(_, _, _, _)
UQuote(s) == "\"" \o s \o "\""
UStrList(st, ts, i, variadic) ==
    IF i > Len(ts) THEN ""
    ELSE (IF i > 1 THEN ", " ELSE "") \o
         (IF variadic /\ i = Len(ts) THEN "..." \o UStr(st, ts[i].elem) ELSE UStr(st, ts[i])) \o
         UStrList(st, ts, i + 1, variadic)
USig(st, f) ==
    "(" \o UStrList(st, f.params, 1, f.variadic) \o ")" \o
    (CASE Len(f.results) = 0 -> ""
       [] Len(f.results) = 1 -> " " \o UStr(st, f.results[1])
       [] OTHER -> " (" \o UStrList(st, f.results, 1, FALSE) \o ")")
RECURSIVE UFieldsStr(_, _, _), UMethodsStr(_, _, _)
UFieldsStr(st, fs, i) ==
    IF i > Len(fs) THEN ""
    ELSE (IF i > 1 THEN "; " ELSE "") \o
         (IF fs[i].emb THEN UStr(st, fs[i].typ) ELSE fs[i].name \o " " \o UStr(st, fs[i].typ)) \o
         (IF fs[i].tag = "" THEN "" ELSE " " \o UQuote(fs[i].tag)) \o
         UFieldsStr(st, fs, i + 1)
UMethodsStr(st, ms, i) ==
    IF i > Len(ms) THEN ""
    ELSE (IF i > 1 THEN "; " ELSE "") \o ms[i].name \o USig(st, ms[i].sig) \o UMethodsStr(st, ms, i + 1)
UStr(st, t) ==
    CASE t.k = "basic" -> t.kind
      [] t.k = "named" ->
           LET d == UDecl[t.obj]
           IN IF d.pkg = 0 THEN d.name
              ELSE (IF st = "g" THEN UPkgPath(d.pkg) ELSE UPkgName(d.pkg)) \o "." \o d.name
      [] t.k = "ptr" -> "*" \o UStr(st, t.elem)
      [] t.k = "slice" -> "[]" \o UStr(st, t.elem)
      [] t.k = "array" -> "[" \o ToString(t.len) \o "]" \o UStr(st, t.elem)
      [] t.k = "map" -> "map[" \o UStr(st, t.key) \o "]" \o UStr(st, t.elem)
      [] t.k = "chan" ->
           (CASE t.dir = 0 -> "chan " [] t.dir = 1 -> "chan<- " [] t.dir = 2 -> "<-chan ") \o
           (IF t.dir = 0 /\ t.elem.k = "chan" /\ t.elem.dir = 2
            THEN "(" \o UStr(st, t.elem) \o ")" ELSE UStr(st, t.elem))
      [] t.k = "func" -> "func" \o USig(st, t)
      [] t.k = "struct" ->
           IF st = "g" THEN "struct{" \o UFieldsStr(st, t.fields, 1) \o "}"
           ELSE IF t.fields = <<>> THEN "struct {}"
           ELSE "struct { " \o UFieldsStr(st, t.fields, 1) \o " }"
      [] t.k = "iface" ->
           IF st = "g" THEN "interface{" \o UMethodsStr(st, t.methods, 1) \o "}"
           ELSE IF t.methods = <<>> THEN "interface {}"
           ELSE "interface { " \o UMethodsStr(st, t.methods, 1) \o " }"

\* ---- fields and methods reachable by selection -------------------------
\* declared methods of declaration o as far as they were added (ds = declaration state)
UDeclMethods(o, ds) == {UDecl[o].methods[i] : i \in 1..ds[o].nm}

\* candidates of a selector on a value of type T: <<depth, unique name, "f"|"m", record,
\* selectable on a value (receiver rule), path>>; T is the type of the value or of an
\* embedded field, addr = the value was reached through a pointer
RECURSIVE UCands(_, _, _, _, _)
UCands(T, d, addr, ds, path) ==
    LET base == IF T.k = "ptr" THEN T.elem ELSE T
        a == addr \/ T.k = "ptr"
        u == UUnd(base)
    IN IF T.k = "ptr" /\ (u.k = "iface" \/ base.k = "ptr") THEN {}
       ELSE
         (IF base.k = "named" /\ u.k # "iface"
          THEN {<<d, UniqueId(x), "m", x, (~x.ptr) \/ a, path>> : x \in UDeclMethods(base.obj, ds)}
          ELSE {})
         \cup
         (IF u.k = "iface"
          THEN {<<d, UniqueId(x), "m", [name |-> x.name, pkg |-> x.pkg, ptr |-> FALSE, sig |-> x.sig], TRUE, path>>
                  : x \in SeqSet(u.methods)}
          ELSE {})
         \cup
         (IF u.k = "struct"
          THEN {<<d, UniqueId(u.fields[i]), "f", u.fields[i], TRUE, Append(path, i)>> : i \in 1..Len(u.fields)}
               \cup UNION {UCands(u.fields[i].typ, d + 1, a, ds, Append(path, i))
                             : i \in {j \in 1..Len(u.fields) : u.fields[j].emb}}
          ELSE {})

\* the method set of T: methods that are found at the shallowest depth, alone there, and
\* whose receiver rule allows a value of type T
UMSet(T, ds) ==
    LET C == UCands(T, 0, FALSE, ds, <<>>)
    IN {c[4] : c \in {c \in C : /\ c[3] = "m"
                                  /\ c[5]
                                  /\ \A e \in C : e[2] = c[2] => (e = c \/ e[1] > c[1])}}

\* lookups by name (xreflect documents them per kind of member): number of fields
\* (methods) of that name at the shallowest depth where a field (method) of that name exists
UCount(T, ds, kind, name, pkg) ==
    LET uid == UniqueId([name |-> name, pkg |-> pkg])
        C == {c \in UCands(T, 0, TRUE, ds, <<>>) : c[3] = kind /\ c[2] = uid}
    IN IF C = {} THEN 0
       ELSE LET dmin == CHOOSE x \in {c[1] : c \in C} : \A y \in {c[1] : c \in C} : x <= y
            IN Cardinality({c \in C : c[1] = dmin})
\* index path (0-based) of the field when it is unique
UFieldPath(T, ds, name, pkg) ==
    LET uid == UniqueId([name |-> name, pkg |-> pkg])
        C == {c \in UCands(T, 0, TRUE, ds, <<>>) : c[3] = "f" /\ c[2] = uid}
        dmin == CHOOSE x \in {c[1] : c \in C} : \A y \in {c[1] : c \in C} : x <= y
        c0 == CHOOSE c \in C : c[1] = dmin
    IN [i \in 1..Len(c0[6]) |-> c0[6][i] - 1]

\* the names lookups are tried with: <<name, package number>>
LookNames == {<<"A", 1>>, <<"B", 1>>, <<"b", 1>>, <<"b", 3>>, <<"M", 1>>, <<"N", 1>>, <<"K", 1>>,
              <<"N1", 1>>, <<"S1", 1>>, <<"T1", 3>>}

---------------------------------------------------------------------------
(* Part 3: predicates of the Go specification *)

UDefined(t) == t.k \in {"basic", "named"}      \* "named type": predeclared or declared
UIsIface(t) == UUnd(t).k = "iface"
UIdent(x, y) == Id("gm", x, y, {})

RECURSIVE UStrip(_)
UStripSeq(ts) == [i \in 1..Len(ts) |-> UStrip(ts[i])]
UStrip(t) ==       \* the term without struct tags
    CASE t.k \in {"basic", "named"} -> t
      [] t.k \in {"ptr", "slice", "array", "chan"} -> [t EXCEPT !.elem = UStrip(t.elem)]
      [] t.k = "map" -> [t EXCEPT !.key = UStrip(t.key), !.elem = UStrip(t.elem)]
      [] t.k = "func" -> [t EXCEPT !.params = UStripSeq(t.params), !.results = UStripSeq(t.results)]
      [] t.k = "struct" -> [t EXCEPT !.fields = [i \in 1..Len(t.fields) |->
                                     [t.fields[i] EXCEPT !.tag = "", !.typ = UStrip(t.fields[i].typ)]]]
      [] t.k = "iface" -> [t EXCEPT !.methods = [i \in 1..Len(t.methods) |->
                                     [t.methods[i] EXCEPT !.sig = UStrip(t.methods[i].sig)]]]
UIdentNoTags(x, y) == Id("gm", UStrip(x), UStrip(y), {})

UImplements(T, J, ds) ==
    /\ UIsIface(J)
    /\ \A x \in SeqSet(UUnd(J).methods) :
          \E y \in UMSet(T, ds) : SameName(x, y) /\ UIdent(x.sig, y.sig)

UAssignable(V, T, ds) ==
    \/ UIdent(V, T)
    \/ /\ UIdent(UUnd(V), UUnd(T))
       /\ ~UDefined(V) \/ ~UDefined(T)
    \/ UIsIface(T) /\ UImplements(V, T, ds)
    \/ /\ UUnd(V).k = "chan" /\ UUnd(T).k = "chan"
       /\ UUnd(V).dir = 0
       /\ UIdent(UUnd(V).elem, UUnd(T).elem)
       /\ ~UDefined(V) \/ ~UDefined(T)

UIntKinds == {"int", "int8", "int16", "int32", "int64", "uint8", "uint16"}
UNumKinds == UIntKinds \cup {"float64"}
UBasicOf(t) == IF UUnd(t).k = "basic" THEN UUnd(t).kind ELSE ""
UIsBytes(t) == /\ UUnd(t).k = "slice"
               /\ UBasicOf(UUnd(t).elem) \in {"uint8", "int32"}

UConvertible(V, T, ds) ==
    \/ UAssignable(V, T, ds)
    \/ UIdentNoTags(UUnd(V), UUnd(T))
    \/ /\ V.k = "ptr" /\ T.k = "ptr"
       /\ UIdentNoTags(UUnd(V.elem), UUnd(T.elem))
    \/ UBasicOf(V) \in UNumKinds /\ UBasicOf(T) \in UNumKinds
    \/ UBasicOf(T) = "string" /\ (UBasicOf(V) \in UIntKinds \/ UIsBytes(V))
    \/ UBasicOf(V) = "string" /\ UIsBytes(T)
    \/ /\ UUnd(V).k = "slice"
       /\ \/ UUnd(T).k = "array" /\ UIdent(UUnd(V).elem, UUnd(T).elem)
          \/ /\ UUnd(T).k = "ptr" /\ UUnd(UUnd(T).elem).k = "array"
             /\ UIdent(UUnd(V).elem, UUnd(UUnd(T).elem).elem)

RECURSIVE UComparable(_)
UComparable(t) ==
    LET u == UUnd(t)
    IN CASE u.k \in {"basic", "ptr", "chan", "iface"} -> TRUE
         [] u.k \in {"slice", "map", "func"} -> FALSE
         [] u.k = "array" -> UComparable(u.elem)
         [] u.k = "struct" -> \A i \in 1..Len(u.fields) : UComparable(u.fields[i].typ)

---------------------------------------------------------------------------
(* Part 4: the universe *)

UComplete(t, ds) == \A o \in UDeclsOf(t) : ds[o].st = 2
UAllMethods(t, ds) == \A o \in UDeclsOf(t) : ds[o].nm = Len(UDecl[o].methods)

\* the key the cache compares: the identity class of the term
UNoDir(t) == IF t.k = "chan" THEN [t EXCEPT !.dir = 0] ELSE t
UCacheEq(x, y) == IF Broken = "chan-dir" THEN UIdent(UNoDir(x), UNoDir(y)) ELSE UIdent(x, y)
UFind(t) == LET S == {i \in 1..Len(objs) : UCacheEq(objs[i], t)}
            IN IF S = {} THEN 0 ELSE MinOf(S)

\* attributes of one object
UAttrs(t, ds) ==
    LET u == UUnd(t)
    IN [kind |-> UKind(t), size |-> USize(t), align |-> UAlign(t),
        str |-> UStr("g", t), rstr |-> UStr("r", t),
        named |-> UDefined(t),
        cmp |-> UComparable(t),
        fields |-> IF u.k = "struct"
                   THEN LET offs == UOffsets(u.fields, 1, 0)
                        IN [i \in 1..Len(u.fields) |->
                              [name |-> u.fields[i].name, off |-> offs[i], emb |-> u.fields[i].emb,
                               tag |-> u.fields[i].tag, str |-> UStr("g", u.fields[i].typ)]]
                   ELSE <<>>,
        \* what Type.NumMethod / Method(i) list: every method of an interface, the declared
        \* methods (both receiver kinds) of another named type, nothing for other types
        decl |-> IF u.k = "iface" THEN {[name |-> x.name, sig |-> UStr("g", x.sig)] : x \in SeqSet(u.methods)}
                 ELSE IF t.k = "named" THEN {[name |-> x.name, sig |-> UStr("g", x.sig)] : x \in UDeclMethods(t.obj, ds)}
                 ELSE {},
        mset |-> {x.name : x \in UMSet(t, ds)},                    \* Go method sets (gate)
        pmset |-> IF t.k = "ptr" THEN {} ELSE {x.name : x \in UMSet(Ptr(t), ds)},
        elem |-> IF u.k \in {"ptr", "slice", "array", "chan", "map"} THEN UStr("g", u.elem) ELSE "",
        key |-> IF u.k = "map" THEN UStr("g", u.key) ELSE "",
        len |-> IF u.k = "array" THEN u.len ELSE 0,
        dir |-> IF u.k = "chan" THEN u.dir ELSE 0,
        nin |-> IF u.k = "func" THEN Len(u.params) ELSE 0,
        nout |-> IF u.k = "func" THEN Len(u.results) ELSE 0,
        variadic |-> IF u.k = "func" THEN u.variadic ELSE FALSE,
        \* lookups by name: only the names that are found are listed
        flook |-> IF u.k # "struct" THEN {}       \* FieldByName answers for struct kinds only
                  ELSE LET cnt == [n \in LookNames |-> UCount(t, ds, "f", n[1], n[2])]
                       IN {[name |-> n[1], pkg |-> n[2], count |-> cnt[n],
                            path |-> IF cnt[n] = 1 THEN UFieldPath(t, ds, n[1], n[2]) ELSE <<>>]
                             : n \in {x \in LookNames : cnt[x] > 0}},
        mlook |-> LET cnt == [n \in LookNames |-> UCount(t, ds, "m", n[1], n[2])]
                  IN {[name |-> n[1], pkg |-> n[2], count |-> cnt[n]] : n \in {x \in LookNames : cnt[x] > 0}}]

\* predicate rows of object t against the objects os (ids), both directions
UPreds(t, self, os, ds, oo) ==
    [os |-> os, ifaces |-> {j \in os : UIsIface(oo[j])},
     asgTo |-> {j \in os : UAssignable(t, oo[j], ds)},
     asgFrom |-> {j \in os : UAssignable(oo[j], t, ds)},
     cnvTo |-> {j \in os : UConvertible(t, oo[j], ds)},
     cnvFrom |-> {j \in os : UConvertible(oo[j], t, ds)},
     implTo |-> {j \in os : UIsIface(oo[j]) /\ UImplements(t, oo[j], ds)},
     implFrom |-> IF UIsIface(t) THEN {j \in os : UImplements(oo[j], t, ds)} ELSE {},
     ident |-> {j \in os : UIdent(t, oo[j])},
     \* classification only: the answers with interpreter-declared names erased
     era |-> {j \in os : UInterp(t) \/ UInterp(oo[j])},
     asgToE |-> {j \in os : (UInterp(t) \/ UInterp(oo[j])) /\ UAssignable(UErase(t), UErase(oo[j]), ds)},
     asgFromE |-> {j \in os : (UInterp(t) \/ UInterp(oo[j])) /\ UAssignable(UErase(oo[j]), UErase(t), ds)},
     cnvToE |-> {j \in os : (UInterp(t) \/ UInterp(oo[j])) /\ UConvertible(UErase(t), UErase(oo[j]), ds)},
     cnvFromE |-> {j \in os : (UInterp(t) \/ UInterp(oo[j])) /\ UConvertible(UErase(oo[j]), UErase(t), ds)}]

\* observation of object id in the object table oo: attributes and predicate rows against
\* every complete object (itself included)
UObs(id, oo, ds) ==
    LET os == {j \in 1..Len(oo) : UComplete(oo[j], ds)}
    IN [id |-> id, attrs |-> UAttrs(oo[id], ds), preds |-> UPreds(oo[id], id, os, ds, oo)]

\* one call: the term asked for, the object that answers, the number of objects and the
\* declaration state after the call (the observations are functions of these: HistObs)
URecord(op, args, extra, t, oo, res, ds, reobs) ==
    hist' = Append(hist, [op |-> op, args |-> args, extra |-> extra, term |-> t, res |-> res,
                          new |-> (res > Len(objs)), n |-> Len(oo), ds |-> ds])

\* objects whose answers depend on declaration o
Mentions(o, oo, ds) == {j \in 1..Len(oo) : o \in UDeclsOf(oo[j]) /\ UComplete(oo[j], ds)}

\* the observations that go with call i of the history: an object is observed when it is
\* created; when a declaration changes (SetUnderlying, AddMethod) every object that mentions
\* it is observed again
HistObs(i) ==
    LET h == hist[i]
        oo == SubSeq(objs, 1, h.n)
        again == IF h.op \in {"SetUnderlying", "AddMethod"}
                 THEN SetToSeq(Mentions(h.extra.decl, oo, h.ds)) ELSE <<>>
    IN [op |-> h.op, args |-> h.args, extra |-> h.extra, term |-> h.term, res |-> h.res, new |-> h.new,
        obs |-> IF h.new /\ UComplete(h.term, h.ds) THEN <<UObs(h.res, oo, h.ds)>> ELSE <<>>,
        reobs |-> [j \in 1..Len(again) |-> UObs(again[j], oo, h.ds)]]

UReturn(op, args, extra, t) ==
    LET f == UFind(t)
    IN IF f # 0
       THEN /\ objs' = objs
            /\ URecord(op, args, extra, t, objs, f, dst, <<>>)
       ELSE /\ Len(objs) < MaxObjs
            /\ objs' = Append(objs, t)
            /\ URecord(op, args, extra, t, Append(objs, t), Len(objs) + 1, dst, <<>>)

Usable == {i \in 1..Len(objs) : UComplete(objs[i], dst)}

\* argument menus -----------------------------------------------------------
IsB1 == Menu \in {"bfs1", "bfs1q"}
IsB2 == Menu \in {"bfs2", "bfs2q"}
Narrow == Menu \in {"bfs3", "bfs4"}        \* fewer arities after a scripted prefix
PoolIdx == CASE Menu = "bfs1" -> {1, 2, 8, 13, 17}
             [] Menu = "bfs1q" -> {1, 8, 17}
             [] Menu = "bfs3" -> {1, 8, 23}
             [] Menu = "bfs4" -> {22}
             [] Menu = "bfs2" -> {1, 10, 21, 23, 26}
             [] Menu = "bfs2q" -> {10, 23, 26}
             \* sampling around the declarations: what their underlying types are made of
             [] Menu = "simd" -> {p \in {1, 2, 8, 21, 24} : (p + Len(hist)) % 2 = 0}
             \* sampling: a window of the pool that moves with the length of the history
             [] OTHER -> {p \in 1..NPool : (p + Len(hist)) % 5 = 0}
ArrLens == IF Menu \in {"sim", "simd"} THEN {0, 3} ELSE {3}
ChanDirs == IF IsB2 THEN {0} ELSE {0, 1, 2}
DeclMenu == CASE IsB1 \/ Menu = "bfs3" -> {6, 7}
              [] IsB2 -> {8, 9}
              [] Menu = "bfs4" -> {}
              [] OTHER -> InterpDecls
\* Scripted prefix: the first calls of the decl-centred menus are fixed, so that the search
\* starts where the interpreter-declared types exist: int, T1 and R1 (both int underneath),
\* for "simd" also struct{A int8; B int64} and R2.
Script == CASE Menu = "bfs4" -> <<<<"FromReflect", 34>>, <<"FromReflect", 22>>>>   \* a named empty interface, then interface{}
            [] Menu = "bfs3" -> <<<<"FromReflect", 1>>, <<"NamedOf", 6>>, <<"SetUnderlying", 6>>,
                                  <<"NamedOf", 7>>, <<"SetUnderlying", 7>>>>
            [] Menu = "simd" -> <<<<"FromReflect", 1>>, <<"NamedOf", 6>>, <<"SetUnderlying", 6>>,
                                  <<"NamedOf", 7>>, <<"SetUnderlying", 7>>, <<"FromReflect", 21>>,
                                  <<"NamedOf", 8>>, <<"SetUnderlying", 8>>>>
            [] OTHER -> <<>>
Allowed(op, x) == IF Len(hist) < Len(Script) THEN Script[Len(hist) + 1] = <<op, x>> ELSE TRUE
Free == Len(hist) >= Len(Script)

\* Arguments.  In the exhaustive menus every combination of the last objects is offered (the
\* first ones were already combined at smaller depths).  In the sampling menu the arguments
\* of the next constructor are first picked one by one into the register m (TypeId's spare
\* sequence variable): a step has few successors, so that a random walk is cheap.
SimMenu == Menu \in {"sim", "simd"}
ArgObjs == {i \in Usable : i + 3 > Len(objs)}
Arg1 == IF SimMenu THEN (IF Len(m) = 1 THEN {m[1]} ELSE {}) ELSE ArgObjs
Arg2 == IF SimMenu THEN (IF Len(m) = 2 THEN {<<m[1], m[2]>>} ELSE {})
        ELSE {<<a, b>> : a \in ArgObjs, b \in ArgObjs}

OpFromReflect ==
    \E p \in (IF Free THEN PoolIdx ELSE 1..NPool) :
       /\ Allowed("FromReflect", p)
       /\ dst' = [o \in 1..NDecl |-> IF o \in UDeclsOf(RPool[p]) THEN [st |-> 2, nm |-> Len(UDecl[o].methods)] ELSE dst[o]]
       /\ LET t == RPool[p]
              f == UFind(t)
              ds == dst'
          IN IF f # 0
             THEN /\ objs' = objs
                  /\ URecord("FromReflect", <<>>, [pool |-> p], t, objs, f, ds, <<>>)
             ELSE /\ Len(objs) < MaxObjs
                  /\ objs' = Append(objs, t)
                  /\ URecord("FromReflect", <<>>, [pool |-> p], t, Append(objs, t), Len(objs) + 1, ds, <<>>)

OpUnary ==
    /\ UNCHANGED dst
    /\ \E a \in Arg1 :
         \/ UReturn("PtrTo", <<a>>, [n |-> 0], Ptr(objs[a]))
         \/ UReturn("SliceOf", <<a>>, [n |-> 0], Slice(objs[a]))
         \/ \E n \in ArrLens : UReturn("ArrayOf", <<a>>, [n |-> n], Arr(n, objs[a]))
         \/ \E d \in ChanDirs : UReturn("ChanOf", <<a>>, [n |-> d], Chan(d, objs[a]))

OpMap ==
    /\ UNCHANGED dst
    /\ \E ab \in Arg2 :
         /\ UComparable(objs[ab[1]])
         /\ UReturn("MapOf", ab, [n |-> 0], MapT(objs[ab[1]], objs[ab[2]]))

ArgSeqs(n) == IF n = 0 THEN {<<>>}
              ELSE IF n = 1 THEN {<<a>> : a \in ArgObjs}
              ELSE {<<a, b>> : a \in ArgObjs, b \in ArgObjs}
TermsOf(ids) == [i \in 1..Len(ids) |-> objs[ids[i]]]

\* <<parameters, results>>
FuncArgs == IF SimMenu THEN {<<SubSeq(m, 1, np), SubSeq(m, np + 1, Len(m))>> : np \in 0..Len(m)}
            ELSE UNION {{<<ps, rs>> : ps \in ArgSeqs(np), rs \in ArgSeqs(nr)}
                          : np \in (IF Narrow \/ Menu \in {"bfs1q", "bfs2q"} THEN 0..1 ELSE 0..2), nr \in 0..1}

OpFunc ==
    /\ UNCHANGED dst
    /\ \E pr \in FuncArgs : \E v \in {FALSE, TRUE} :
         LET ps == pr[1]
             rs == pr[2]
         IN /\ v => Len(ps) > 0 /\ objs[ps[Len(ps)]].k = "slice"
            /\ (SimMenu /\ m = <<>>) => Len(hist) % 4 = 0
            /\ UReturn("FuncOf", ps \o rs, [nin |-> Len(ps), variadic |-> v],
                       Func(TermsOf(ps), TermsOf(rs), v))

\* struct fields: positions are named A, B, K; a field whose type is named may be embedded;
\* the second field may be unexported (package 3); the first may carry a tag
FieldSpecs(ids) ==
    LET nm(i) == IF i = 1 THEN "A" ELSE IF i = 2 THEN "B" ELSE "K"
        opts(i) == {Fld(nm(i), 1, FALSE, "", objs[ids[i]])}
                   \cup (IF i = 1 THEN {Fld("A", 1, FALSE, "t", objs[ids[i]])} ELSE {})
                   \cup (IF i = 2 /\ ~IsB1 THEN {Fld("b", 3, FALSE, "", objs[ids[i]])} ELSE {})
                   \cup (IF objs[ids[i]].k = "named" /\ UDecl[objs[ids[i]].obj].pkg # 0 /\ ~IsB1
                         THEN {Fld(UDecl[objs[ids[i]].obj].name, UDecl[objs[ids[i]].obj].pkg, TRUE, "", objs[ids[i]])}
                         ELSE {})
                   \cup (IF objs[ids[i]].k = "ptr" /\ objs[ids[i]].elem.k = "named" /\ ~IsB1
                            /\ UDecl[objs[ids[i]].elem.obj].pkg # 0 /\ UDecl[objs[ids[i]].elem.obj].und.k # "iface"
                         THEN {Fld(UDecl[objs[ids[i]].elem.obj].name, UDecl[objs[ids[i]].elem.obj].pkg, TRUE, "", objs[ids[i]])}
                         ELSE {})
    IN IF Len(ids) = 0 THEN {<<>>}
       ELSE IF Len(ids) = 1 THEN {<<f>> : f \in opts(1)}
       ELSE IF Len(ids) = 2 THEN {<<f, g>> : f \in opts(1), g \in opts(2)}
       ELSE {<<f, g, h>> : f \in opts(1), g \in opts(2), h \in opts(3)}

StructArgs == IF SimMenu THEN {m} ELSE UNION {ArgSeqs(n) : n \in (IF Narrow THEN 0..1 ELSE 0..2)}

OpStruct ==
    /\ UNCHANGED dst
    /\ \E ids \in StructArgs : \E fs \in FieldSpecs(ids) :
         /\ (SimMenu /\ m = <<>>) => Len(hist) % 4 = 1
         /\ \A i \in 1..Len(fs) : \A j \in 1..Len(fs) : i # j => fs[i].name # fs[j].name
         /\ UReturn("StructOf", ids, [fields |-> [i \in 1..Len(fs) |-> [name |-> fs[i].name, pkg |-> fs[i].pkg,
                                                                      emb |-> fs[i].emb, tag |-> fs[i].tag]]],
                    Struct(fs))

\* accessors return the canonical object of a component
OpAccess ==
    /\ UNCHANGED dst
    /\ \E a \in Arg1 :
         LET u == UUnd(objs[a])
         IN \/ /\ u.k \in {"ptr", "slice", "array", "chan", "map"}
               /\ UReturn("Elem", <<a>>, [n |-> 0], u.elem)
            \/ /\ u.k = "map"
               /\ UReturn("Key", <<a>>, [n |-> 0], u.key)
            \/ /\ u.k = "struct"
               /\ \E i \in 1..Len(u.fields) : UReturn("Field", <<a>>, [n |-> i - 1], u.fields[i].typ)
            \/ /\ u.k = "func"
               /\ \E i \in 1..Len(u.params) : UReturn("In", <<a>>, [n |-> i - 1], u.params[i])
            \/ /\ u.k = "func"
               /\ \E i \in 1..Len(u.results) : UReturn("Out", <<a>>, [n |-> i - 1], u.results[i])

\* declarations through the universe: NamedOf creates a new (incomplete) object
OpNamedOf ==
    \E o \in DeclMenu :
       /\ dst[o].st = 0
       /\ Allowed("NamedOf", o)
       /\ (SimMenu /\ Free) => (o + Len(hist)) % 3 = 0
       /\ Len(objs) < MaxObjs
       /\ dst' = [dst EXCEPT ![o].st = 1]
       /\ objs' = Append(objs, UN(o))
       /\ URecord("NamedOf", <<>>, [decl |-> o], UN(o), Append(objs, UN(o)), Len(objs) + 1, dst', <<>>)

OpSetUnderlying ==
    \E o \in DeclMenu : \E a \in Usable :
       /\ dst[o].st = 1
       /\ Allowed("SetUnderlying", o)
       /\ UIdent(objs[a], UDecl[o].und)
       /\ dst' = [dst EXCEPT ![o].st = 2]
       /\ objs' = objs
       /\ URecord("SetUnderlying", <<UFind(UN(o)), a>>, [decl |-> o], UN(o), objs, UFind(UN(o)), dst', <<>>)

\* methods are added in the order of the declaration; every answer that may depend on the
\* method is observed again
OpAddMethod ==
    \E o \in DeclMenu :
       /\ dst[o].st = 2
       /\ Free
       /\ dst[o].nm < Len(UDecl[o].methods)
       /\ dst' = [dst EXCEPT ![o].nm = dst[o].nm + 1]
       /\ objs' = objs
       /\ URecord("AddMethod", <<UFind(UN(o))>>,
                  [decl |-> o, k |-> dst[o].nm + 1, method |-> UDecl[o].methods[dst[o].nm + 1]],
                  UN(o), objs, UFind(UN(o)), dst', <<>>)

UInit == /\ cur = <<>>
         /\ row = [gm |-> {}, go |-> {}]
         /\ m = <<>>
         /\ hist = <<>>
         /\ objs = <<>>
         /\ dst = [o \in 1..NDecl |-> [st |-> 0, nm |-> 0]]

\* a history of MaxOps calls is closed by Finish (cur = <<1>>): the observations are computed
\* and printed in that state only
Done == cur # <<>>

\* sampling menu: pick one more argument
OpPick ==
    /\ SimMenu
    /\ Free
    /\ Len(m) < 3
    /\ \E a \in {i \in Usable : i + 5 > Len(objs) \/ i <= 2} : m' = Append(m, a)
    /\ UNCHANGED <<hist, objs, dst>>

UNext ==
    /\ UNCHANGED row
    /\ ~Done
    /\ IF Len(hist) >= MaxOps
       THEN /\ cur' = <<1>>
            /\ UNCHANGED <<hist, objs, dst, m>>
       ELSE /\ UNCHANGED cur
            /\ \/ OpPick
               \/ /\ m' = <<>>
                  /\ \/ Free /\ OpUnary
                     \/ Free /\ OpMap
                     \/ Free /\ OpFunc
                     \/ Free /\ OpStruct
                     \/ Free /\ OpAccess
                     \/ /\ m = <<>>           \* calls without type arguments
                        /\ \/ OpFromReflect
                           \/ OpNamedOf
                           \/ OpSetUnderlying
                           \/ OpAddMethod

SpecUniverse == UInit /\ [][UNext]_uvars

---------------------------------------------------------------------------
(* Part 5: invariants *)

\* objs and hist only grow: a law violated by a prefix of a history is still violated when
\* the history is closed, so the laws are evaluated in closed histories (all of them are
\* reached by the exhaustive search)
UTypeOK == Done =>
           /\ Len(objs) <= MaxObjs
           /\ \A o \in 1..NDecl : dst[o].st \in 0..2 /\ dst[o].nm \in 0..Len(UDecl[o].methods)

\* same term => same object, whatever the construction path
CanonicalNow == \A i \in 1..Len(objs) : \A j \in 1..Len(objs) : UIdent(objs[i], objs[j]) => i = j

\* the object a call returns has the type that was asked for
Canonical == Done => CanonicalNow
Faithful == Done => \A i \in 1..Len(hist) : UIdent(objs[hist[i].res], hist[i].term)

\* layout laws of every struct among the objects: every field is aligned, fields do not
\* overlap, the size is a multiple of the alignment and covers the last field, padding is
\* minimal
LayoutLaws == Done =>
    \A i \in 1..Len(objs) :
       LET u == UUnd(objs[i])
       IN u.k = "struct" /\ u.fields # <<>> =>
            LET offs == UOffsets(u.fields, 1, 0)
                n == Len(u.fields)
                a == UAlign(u)
            IN /\ offs[1] = 0
               /\ \A k \in 1..n : offs[k] % UAlign(u.fields[k].typ) = 0
               /\ \A k \in 1..(n - 1) :
                     /\ offs[k + 1] >= offs[k] + USize(u.fields[k].typ)
                     /\ offs[k + 1] - (offs[k] + USize(u.fields[k].typ)) < UAlign(u.fields[k + 1].typ)
               /\ USize(u) % a = 0
               /\ USize(u) >= offs[n] + USize(u.fields[n].typ)
               /\ USize(u) - (offs[n] + USize(u.fields[n].typ)) <= a

\* predicate laws on every observation of a closed history
AllObs == IF ~Done THEN <<>>
          ELSE FoldSeq(LAMBDA i, acc : acc \o HistObs(i).obs \o HistObs(i).reobs, <<>>,
                       [i \in 1..Len(hist) |-> i])
PredLaws ==
    \A k \in 1..Len(AllObs) :
       LET ob == AllObs[k]
           p == ob.preds
           t == objs[ob.id]
       IN /\ ob.id \in p.ident                                    \* reflexive
          /\ p.ident \subseteq (p.asgTo \cap p.asgFrom)           \* identical => assignable both ways
          /\ p.asgTo \subseteq p.cnvTo /\ p.asgFrom \subseteq p.cnvFrom   \* assignable => convertible
          /\ p.implTo \subseteq p.asgTo                           \* implements => assignable to the interface
          /\ p.implFrom \subseteq p.asgFrom
          /\ \A j \in p.asgTo :                                   \* two distinct defined non-interface types are never assignable
                (UDefined(t) /\ UDefined(objs[j]) /\ ~UIsIface(objs[j])) => j \in p.ident
          /\ CanonicalNow => p.ident = {ob.id}                       \* one object per identity class
          /\ (\A j \in p.cnvTo : UUnd(objs[j]).k = "struct" /\ UUnd(t).k = "struct"
                 => UIdentNoTags(UUnd(t), UUnd(objs[j])))         \* struct conversion = same fields modulo tags

ASSUME UWellFormed ==
    /\ \A o \in 1..NDecl : UDecl[o].und.k # "named"
    /\ \A p \in 1..NPool : UDeclsOf(RPool[p]) \subseteq GoDecls
    /\ \A o \in GoDecls : UDeclsOf(UN(o)) \subseteq GoDecls

---------------------------------------------------------------------------
(* Behaviour emission (R) *)

EmitUniverse ==
    IF ~EmitOn THEN TRUE
    ELSE IF hist = <<>>
         THEN PrintT(ToJson([t |-> "meta", decls |-> UDecl, pool |-> RPool, exported |-> Exported,
                             pkgpaths |-> [p \in 1..3 |-> UPkgPath(p)],
                             pkgnames |-> [p \in 1..3 |-> UPkgName(p)],
                             looknames |-> LookNames,
                             pattrs |-> [p \in 1..NPool |->
                                           UAttrs(RPool[p], [o \in 1..NDecl |-> [st |-> 2, nm |-> Len(UDecl[o].methods)]])]]))
    ELSE IF Done
         THEN PrintT(ToJson([t |-> "hist", ops |-> [i \in 1..Len(hist) |-> HistObs(i)]]))
    ELSE TRUE
=============================================================================

------------------------------- MODULE TypeId -------------------------------
(***************************************************************************)
(* Type identity, type hashing and type-keyed maps of gomacro              *)
(* (go/typeutil: predicates.go Identical, map.go Hasher / Map; the types   *)
(* are those of gomacro's fork go/types).                                  *)
(*                                                                         *)
(* Part 1  finite type terms.  A term is a record; named types refer to a  *)
(*   declaration (object) by number, so that recursive declarations are    *)
(*   finite terms.  Several terms may share one object (two *Named for one *)
(*   TypeName), several basic terms one kind (byte / uint8).               *)
(* Part 2  Id(mode, x, y, seen): type identity as a recursive operator.    *)
(*   mode "go" = the Go specification (interfaces are method SETS:         *)
(*               embedded interfaces are flattened);                       *)
(*   mode "gm" = the rule documented in typeutil/predicates.go ("PATCH:    *)
(*               two interface types are identical if they have the same   *)
(*               explicit methods and the same embedded interfaces").      *)
(*   TLC checks that both are equivalences, that gm refines go, and that   *)
(*   they coincide on terms without embedded interfaces.  The go answers   *)
(*   are gated against the standard library, the gm answers are what       *)
(*   typeutil.Identical must return.                                       *)
(* Part 3  a type-keyed map as an association list keyed by Id, with a     *)
(*   history variable recording the observation after every operation.     *)
(*                                                                         *)
(* Hash: the model cannot compute typeutil's hash.  Its specification is   *)
(* "Id(gm, x, y) => Hash(x) = Hash(y)"; any function of the identity class *)
(* satisfies it, and such a function exists iff Id is an equivalence (the  *)
(* laws below).  The conformance driver checks the implication on the real *)
(* hashes of every pair the model calls identical.                         *)
(***************************************************************************)
EXTENDS Naturals, Sequences, FiniteSets, TLC, Json, SequencesExt

CONSTANTS Level,      \* 1: base universe; 2: one more constructor layer on top of it
          Broken,     \* "none" = the property; "asym-embed" = broken variant (self-test):
                      \*   the interface rule looks at the embedded list of x only
          EmitOn,     \* TRUE: print JSON records
          Blocks,     \* fan-out of the row enumeration (parallelism for TLC workers)
          MaxOps,     \* bound on the length of map histories
          EmitAt,     \* map histories are printed when Len(hist) = EmitAt
          Insts,      \* instances of a key a map operation may use ({1} or {1, 2})
          NKeys       \* number of key terms (prefix of KeySeq) used by map histories

VARIABLES cur,        \* cursor of the row enumeration: <<>>, <<block>>, <<block, i>>
          row,        \* [gm, go]: indices of the terms identical to term cur[2]
          m,          \* the association list: sequence of [key, val]
          hist        \* history variable: operations with result and observation

vars == <<cur, row, m, hist>>

---------------------------------------------------------------------------
(* Part 1: terms *)

\* package objects 1..3 (0 = no package); 1 and 2 are distinct objects with one path
PkgPath == <<"x/p", "x/p", "x/q">>
Exported == {"A", "B", "K", "M", "N", "Next", "N1", "N2", "S1", "T1",
             "E1", "E2", "E3", "E4", "R1", "R2"}

Basic(kind, alias) == [k |-> "basic", kind |-> kind, alias |-> alias]
Named(o, i)     == [k |-> "named", obj |-> o, inst |-> i]
Ptr(t)          == [k |-> "ptr", elem |-> t]
Slice(t)        == [k |-> "slice", elem |-> t]
Arr(n, t)       == [k |-> "array", len |-> n, elem |-> t]
MapT(a, b)      == [k |-> "map", key |-> a, elem |-> b]
Chan(d, t)      == [k |-> "chan", dir |-> d, elem |-> t]
Func(ps, rs, v) == [k |-> "func", params |-> ps, results |-> rs, variadic |-> v]
Fld(n, p, e, tag, t) == [name |-> n, pkg |-> p, emb |-> e, tag |-> tag, typ |-> t]
Struct(fs)      == [k |-> "struct", fields |-> fs]
Mth(n, p, sig)  == [name |-> n, pkg |-> p, sig |-> sig]
Iface(ms, es)   == [k |-> "iface", methods |-> ms, embeds |-> es]

TInt  == Basic("int", FALSE)
Str  == Basic("string", FALSE)
U8   == Basic("uint8", FALSE)
Byte == Basic("uint8", TRUE)     \* the universe alias object `byte`
I8   == Basic("int8", FALSE)
I16  == Basic("int16", FALSE)
F0   == Func(<<>>, <<>>, FALSE)

\* type declarations; a Named term refers to its position here
ObjTab == <<
  [name |-> "N1", pkg |-> 1, und |-> TInt],                                         \* 1
  [name |-> "N2", pkg |-> 1, und |-> TInt],                                         \* 2
  [name |-> "S1", pkg |-> 1, und |-> Struct(<<Fld("A", 1, FALSE, "", TInt)>>)],     \* 3
  [name |-> "T1", pkg |-> 1, und |-> Struct(<<Fld("Next", 1, FALSE, "", Ptr(Named(4, 1)))>>)], \* 4
  [name |-> "E1", pkg |-> 1, und |-> Iface(<<Mth("M", 1, F0)>>, <<>>)],            \* 5
  [name |-> "E2", pkg |-> 1, und |-> Iface(<<Mth("M", 1, F0)>>, <<>>)],            \* 6
  [name |-> "E3", pkg |-> 1, und |-> Iface(<<Mth("N", 1, Func(<<TInt>>, <<>>, FALSE))>>, <<>>)], \* 7
  [name |-> "E4", pkg |-> 1, und |-> Iface(<<Mth("K", 1, F0)>>, <<5>>)],           \* 8
  \* type R1 interface { m() interface{ R1 } }  -- the cycle of predicates.go's comment
  [name |-> "R1", pkg |-> 1, und |-> Iface(<<Mth("m", 1, Func(<<>>, <<Iface(<<>>, <<9>>)>>, FALSE))>>, <<>>)],   \* 9
  [name |-> "R2", pkg |-> 1, und |-> Iface(<<Mth("m", 1, Func(<<>>, <<Iface(<<>>, <<10>>)>>, FALSE))>>, <<>>)] >> \* 10
NObj == Len(ObjTab)
Und(o) == ObjTab[o].und

SeqSet(s) == {s[i] : i \in 1..Len(s)}

\* the method set of an interface term: explicit methods and those of the embedded declarations
RECURSIVE Methods(_)
Methods(t) == SeqSet(t.methods) \cup UNION {Methods(Und(t.embeds[i])) : i \in 1..Len(t.embeds)}

UniqueId(n) == <<n.name, IF n.name \in Exported \/ n.pkg = 0 THEN "" ELSE PkgPath[n.pkg]>>

RECURSIVE NMethods(_)   \* number of methods counted with multiplicity
NMethods(t) == Len(t.methods) +
               FoldSeq(LAMBDA e, acc : acc + NMethods(Und(e)), 0, t.embeds)

\* a method name is declared once (explicitly or through one embedded interface)
WellFormedIface(t) == Cardinality({UniqueId(x) : x \in Methods(t)}) = NMethods(t)

N1a == Named(1, 1)
N1b == Named(1, 2)    \* second *Named sharing the declaration of N1
E1a == Named(5, 1)

Basics == {TInt, Str, U8, Byte}
Nameds == {Named(o, 1) : o \in 1..NObj} \cup {N1b, Named(5, 2)}
L0 == Basics \cup Nameds

Unary(S, lens, dirs) ==
    {Ptr(t) : t \in S} \cup {Slice(t) : t \in S} \cup
    {Arr(n, t) : n \in lens, t \in S} \cup {Chan(d, t) : d \in dirs, t \in S}

Maps == {MapT(a, b) : a \in {TInt, Str, N1a, N1b}, b \in {TInt, N1a, N1b, U8, Byte}}
        \cup {MapT(TInt, t) : t \in L0}

FArgs  == {TInt, N1a, N1b, Slice(TInt)}
FArgs2 == {TInt, N1a, Slice(TInt)}
PLists == {<<>>} \cup {<<a>> : a \in FArgs} \cup {<<a, b>> : a \in FArgs2, b \in FArgs2}
RLists == {<<>>, <<TInt>>, <<N1a>>, <<N1b>>, <<TInt, Str>>}
Funcs == {Func(ps, rs, FALSE) : ps \in PLists, rs \in RLists} \cup
         {Func(ps, rs, TRUE) : ps \in {p \in PLists : Len(p) > 0 /\ p[Len(p)].k = "slice"}, rs \in RLists}

FA   == Fld("A", 1, FALSE, "", TInt)
FAt  == Fld("A", 1, FALSE, "t", TInt)
FB   == Fld("B", 1, FALSE, "", TInt)
Fb1  == Fld("b", 1, FALSE, "", TInt)
Fb2  == Fld("b", 2, FALSE, "", TInt)     \* other package object, same path
Fb3  == Fld("b", 3, FALSE, "", TInt)     \* other path
Fb0  == Fld("b", 0, FALSE, "", TInt)     \* no package
FeN  == Fld("N1", 1, TRUE, "", N1a)     \* embedded N1
FPool == {FA, FAt, FB, Fb1, Fb2, Fb3, Fb0, FeN,
          Fld("A", 1, FALSE, "", Str), Fld("A", 2, FALSE, "", TInt),
          Fld("N1", 1, TRUE, "", N1b), Fld("N1", 1, TRUE, "", Ptr(N1a)),
          Fld("N1", 1, FALSE, "", N1a), Fld("N1", 1, TRUE, "t", N1a),
          Fld("A", 1, FALSE, "", N1a), Fld("A", 1, FALSE, "", N1b),
          Fld("A", 1, FALSE, "", U8), Fld("A", 1, FALSE, "", Byte),
          Fld("E1", 1, TRUE, "", E1a), Fld("A", 1, FALSE, "", Ptr(Named(4, 1)))}
Structs == {Struct(<<>>)} \cup {Struct(<<f>>) : f \in FPool} \cup
           {s \in {Struct(<<f, g>>) : f \in {FA, FAt, Fb1, FeN},
                                       g \in {FB, Fld("B", 1, FALSE, "", Str), Fb1, Fb3, FA}}
              : s.fields[1].name # s.fields[2].name}

MOpts == {<<>>, <<Mth("M", 1, F0)>>, <<Mth("M", 1, Func(<<TInt>>, <<>>, FALSE))>>,
          <<Mth("M", 2, F0)>>}
NOpts == {<<>>, <<Mth("N", 1, Func(<<TInt>>, <<>>, FALSE))>>}
XOpts == {<<>>, <<Mth("x", 1, F0)>>, <<Mth("x", 2, F0)>>, <<Mth("x", 3, F0)>>}
EOpts == {<<>>, <<5>>, <<6>>, <<7>>, <<8>>, <<5, 7>>, <<6, 7>>, <<7, 8>>}
Ifaces == {t \in {Iface(a \o b \o c, e) : a \in MOpts, b \in NOpts, c \in XOpts, e \in EOpts}
                 \cup {Iface(a, e) : a \in {<<>>, <<Mth("M", 1, F0)>>}, e \in {<<9>>, <<10>>, <<5, 9>>}}
              : WellFormedIface(t)}

L1 == L0 \cup Unary(L0, {0, 3}, {0, 1, 2}) \cup Maps \cup Funcs \cup Structs \cup Ifaces

L2 == L1 \cup Unary(L1, {3}, {0}) \cup {MapT(TInt, t) : t \in L1}
         \cup {Func(<<t>>, <<>>, FALSE) : t \in L1} \cup {Func(<<>>, <<t>>, FALSE) : t \in L1}
         \cup {Struct(<<Fld("A", 1, FALSE, "", t)>>) : t \in L1}
         \cup {Iface(<<Mth("M", 1, Func(<<t>>, <<>>, FALSE))>>, <<>>) : t \in L1}

U == IF Level = 1 THEN L1 ELSE L2
USeq == SetToSeq(U)
N == Len(USeq)

---------------------------------------------------------------------------
(* Part 2: identity *)

SameName(a, b) ==
    /\ a.name = b.name
    /\ \/ a.name \in Exported
       \/ IF a.pkg = 0 \/ b.pkg = 0 THEN a.pkg = b.pkg ELSE PkgPath[a.pkg] = PkgPath[b.pkg]

RECURSIVE Id(_, _, _, _), IdSeq(_, _, _, _), IdMethods(_, _, _, _)

IdSeq(mode, xs, ys, seen) ==
    /\ Len(xs) = Len(ys)
    /\ \A i \in 1..Len(xs) : Id(mode, xs[i], ys[i], seen)

\* two sets of methods with unique names: same names, identical signatures
IdMethods(mode, mx, my, seen) ==
    /\ Cardinality(mx) = Cardinality(my)
    /\ \A a \in mx : \E b \in my : SameName(a, b) /\ Id(mode, a.sig, b.sig, seen)

EmbedsAgree(x, y) ==
    IF Broken = "asym-embed"
    THEN \* broken variant: both counts are taken from x; only x's embedded list is walked
         \A i \in 1..Len(x.embeds) : i <= Len(y.embeds) /\ x.embeds[i] = y.embeds[i]
    ELSE x.embeds = y.embeds

Id(mode, x, y, seen) ==
    IF x.k # y.k THEN FALSE
    ELSE CASE x.k = "basic"  -> x.kind = y.kind
           [] x.k = "named"  -> x.obj = y.obj
           [] x.k = "ptr"    -> Id(mode, x.elem, y.elem, seen)
           [] x.k = "slice"  -> Id(mode, x.elem, y.elem, seen)
           [] x.k = "array"  -> x.len = y.len /\ Id(mode, x.elem, y.elem, seen)
           [] x.k = "map"    -> Id(mode, x.key, y.key, seen) /\ Id(mode, x.elem, y.elem, seen)
           [] x.k = "chan"   -> x.dir = y.dir /\ Id(mode, x.elem, y.elem, seen)
           [] x.k = "func"   -> /\ x.variadic = y.variadic
                                /\ IdSeq(mode, x.params, y.params, seen)
                                /\ IdSeq(mode, x.results, y.results, seen)
           [] x.k = "struct" -> /\ Len(x.fields) = Len(y.fields)
                                /\ \A i \in 1..Len(x.fields) :
                                     LET f == x.fields[i]
                                         g == y.fields[i]
                                     IN /\ f.emb = g.emb
                                        /\ f.tag = g.tag
                                        /\ SameName(f, g)
                                        /\ Id(mode, f.typ, g.typ, seen)
           [] x.k = "iface"  ->
                IF mode = "gm"
                THEN \* documented rule of typeutil: explicit methods and embedded declarations
                     /\ IdMethods(mode, SeqSet(x.methods), SeqSet(y.methods), seen)
                     /\ EmbedsAgree(x, y)
                ELSE \* Go: same method set; a pair met again on the way down is identical
                     \* (cycles through anonymous interfaces embedding a declaration)
                     \/ <<x, y>> \in seen
                     \/ <<y, x>> \in seen
                     \/ IdMethods(mode, Methods(x), Methods(y), seen \cup {<<x, y>>})

Row(mode, i) == {j \in 1..N : Id(mode, USeq[i], USeq[j], {})}

\* does the term contain an interface literal with embedded declarations?
RECURSIVE HasEmb(_)
HasEmb(t) ==
    CASE t.k \in {"basic", "named"} -> FALSE
      [] t.k \in {"ptr", "slice", "array", "chan"} -> HasEmb(t.elem)
      [] t.k = "map" -> HasEmb(t.key) \/ HasEmb(t.elem)
      [] t.k = "func" -> \/ \E i \in 1..Len(t.params) : HasEmb(t.params[i])
                         \/ \E i \in 1..Len(t.results) : HasEmb(t.results[i])
      [] t.k = "struct" -> \E i \in 1..Len(t.fields) : HasEmb(t.fields[i].typ)
      [] t.k = "iface" -> t.embeds # <<>> \/ \E i \in 1..Len(t.methods) : HasEmb(t.methods[i].sig)

---------------------------------------------------------------------------
(* Part 3: the type-keyed map *)

KeySeq == <<Arr(3, TInt), Slice(I8),                   \* not identical (chosen so that the real
                                                       \*   hashes collide: one bucket, see DESIGN)
            U8, Byte,                                  \* identical, distinct objects
            N1a, N1b,                                  \* identical, distinct *Named
            Iface(<<>>, <<>>), Iface(<<>>, <<5>>),     \* interface{} , interface{E1}
            Iface(<<Mth("M", 1, F0)>>, <<>>),          \* interface{M()}: Go-identical to interface{E1}
            Arr(0, I16), Struct(<<FA>>), Struct(<<FAt>>) >>
NK == NKeys
Vals == {1, 2}

\* KM[a] = keys identical to key a (a is the first argument of Id, as in Map.At/Set)
KM == [a \in 1..NK |-> {b \in 1..NK : Id("gm", KeySeq[a], KeySeq[b], {})}]

MinOf(S) == CHOOSE x \in S : \A y \in S : x <= y
Hits(mm, a) == {i \in 1..Len(mm) : mm[i].key \in KM[a]}
AtOf(mm, a) == IF Hits(mm, a) = {} THEN 0 ELSE mm[MinOf(Hits(mm, a))].val
Obs(mm) == [len  |-> Len(mm),
            at   |-> [a \in 1..NK |-> AtOf(mm, a)],
            keys |-> {mm[i].key : i \in 1..Len(mm)}]
DropAt(s, i) == SubSeq(s, 1, i - 1) \o SubSeq(s, i + 1, Len(s))

Record(op, a, n, v, ret, mm) ==
    hist' = Append(hist, [op |-> op, k |-> a, inst |-> n, v |-> v, ret |-> ret, obs |-> Obs(mm)])

SetOp(a, n, v) ==
    LET H == Hits(m, a)
        mm == IF H = {} THEN Append(m, [key |-> a, val |-> v])
              ELSE [m EXCEPT ![MinOf(H)].val = v]
    IN /\ m' = mm
       /\ Record("set", a, n, v, AtOf(m, a), mm)

DelOp(a, n) ==
    LET H == Hits(m, a)
        mm == IF H = {} THEN m ELSE DropAt(m, MinOf(H))
    IN /\ m' = mm
       /\ Record("del", a, n, 0, IF H = {} THEN 0 ELSE 1, mm)

\* At is an observation: it changes only the history
AtOp(a, n) ==
    /\ m' = m
    /\ Record("at", a, n, 0, AtOf(m, a), m)

---------------------------------------------------------------------------
(* Behaviours *)

Init == /\ cur = <<>>
        /\ row = [gm |-> {}, go |-> {}]
        /\ m = <<>>
        /\ hist = <<>>

\* row enumeration: <<>> -> <<block>> -> <<block, i>>; one state per term
NextRows ==
    /\ UNCHANGED <<m, hist>>
    /\ \/ /\ cur = <<>>
          /\ \E b \in 1..Blocks : cur' = <<b>>
          /\ UNCHANGED row
       \/ /\ Len(cur) = 1
          /\ \E i \in 1..N : /\ i % Blocks = cur[1] - 1
                             /\ cur' = <<cur[1], i>>
                             /\ row' = [gm |-> Row("gm", i), go |-> Row("go", i)]
SpecRows == Init /\ [][NextRows]_vars

NextMap ==
    /\ UNCHANGED <<cur, row>>
    /\ Len(hist) < MaxOps
    /\ \E a \in 1..NK : \E n \in Insts :
          \/ \E v \in Vals : SetOp(a, n, v)
          \/ DelOp(a, n)
SpecMap == Init /\ [][NextMap]_vars

\* histories with interleaved At operations (simulation)
NextMapL ==
    /\ UNCHANGED <<cur, row>>
    /\ Len(hist) < MaxOps
    /\ \E a \in 1..NK : \E n \in Insts :
          \/ \E v \in Vals : SetOp(a, n, v)
          \/ DelOp(a, n)
          \/ AtOp(a, n)
SpecMapL == Init /\ [][NextMapL]_vars

---------------------------------------------------------------------------
(* Properties checked by TLC on the specification itself (M) *)

AtRow == Len(cur) = 2
I == cur[2]
Modes == {"gm", "go"}
RowOf(mode) == IF mode = "gm" THEN row.gm ELSE row.go

ASSUME UniverseOK == /\ \A o \in 1..NObj : Und(o).k # "named"
              /\ N > 0

Reflexive == AtRow => \A mode \in Modes : I \in RowOf(mode)

\* checked in every row: Id(i, j) => Id(j, i); over all rows this is symmetry
Symmetric == AtRow => \A mode \in Modes : \A j \in RowOf(mode) : Id(mode, USeq[j], USeq[I], {})

\* Id(i, j) /\ Id(j, k) => Id(i, k)
Transitive == AtRow => \A mode \in Modes : \A j \in RowOf(mode) \ {I} : Row(mode, j) \subseteq RowOf(mode)

\* the documented rule refines Go's, and they agree where no interface embeds a declaration
GmRefinesGo == AtRow => /\ row.gm \subseteq row.go
                        /\ ~HasEmb(USeq[I]) => \A j \in row.go : ~HasEmb(USeq[j]) => j \in row.gm

\* identity never relates different constructors
KindsAgree == AtRow => \A j \in row.go : USeq[j].k = USeq[I].k

\* map laws ------------------------------------------------------------
NoDupKeys == \A i \in 1..Len(m) : \A j \in 1..Len(m) : i # j => m[j].key \notin KM[m[i].key]
ObsNow == Len(hist) > 0 => hist[Len(hist)].obs = Obs(m)

ZeroAt == [a \in 1..NK |-> 0]
\* the algebraic laws of an association list keyed by identity, stated on the last step
MapLaws ==
    Len(hist) > 0 =>
      LET h == hist[Len(hist)]
          before == IF Len(hist) = 1 THEN [len |-> 0, at |-> ZeroAt, keys |-> {}] ELSE hist[Len(hist) - 1].obs
          now == h.obs
          same(b) == b \in KM[h.k]
      IN /\ Cardinality(now.keys) = now.len
         /\ \A b \in 1..NK : (now.at[b] # 0) = (\E c \in now.keys : c \in KM[b])
         /\ CASE h.op = "set" ->
                   /\ h.ret = before.at[h.k]
                   /\ \A b \in 1..NK : now.at[b] = IF same(b) THEN h.v ELSE before.at[b]
                   /\ now.len = before.len + (IF before.at[h.k] = 0 THEN 1 ELSE 0)
              [] h.op = "del" ->
                   /\ h.ret = (IF before.at[h.k] = 0 THEN 0 ELSE 1)
                   /\ \A b \in 1..NK : now.at[b] = IF same(b) THEN 0 ELSE before.at[b]
                   /\ now.len = before.len - h.ret
              [] h.op = "at" ->
                   /\ h.ret = before.at[h.k]
                   /\ now = before

---------------------------------------------------------------------------
(* Behaviour emission (R) *)

EmitRows ==
    IF ~EmitOn THEN TRUE
    ELSE IF cur = <<>>
         THEN PrintT(ToJson([t |-> "meta", n |-> N, objs |-> ObjTab, pkgs |-> PkgPath,
                             exported |-> Exported]))
    ELSE IF AtRow
         THEN PrintT(ToJson([t |-> "row", i |-> I, term |-> USeq[I], gm |-> row.gm, go |-> row.go]))
    ELSE TRUE

EmitMap ==
    IF ~EmitOn THEN TRUE
    ELSE IF hist = <<>>
         THEN PrintT(ToJson([t |-> "keys", objs |-> ObjTab, pkgs |-> PkgPath, exported |-> Exported,
                             keys |-> SubSeq(KeySeq, 1, NK),
                             kid |-> [a \in 1..NK |-> KM[a]]]))
    ELSE IF Len(hist) = EmitAt
         THEN PrintT(ToJson([t |-> "hist", ops |-> hist]))
    ELSE TRUE
=============================================================================

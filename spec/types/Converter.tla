------------------------------ MODULE Converter ------------------------------
(***************************************************************************)
(* Conversion of a go/types description of packages into gomacro's own      *)
(* go/types representation (go/types/converter.go: Converter.Package,       *)
(* object, typ, mknamed, addmethods; used by xreflect.Importer).            *)
(*                                                                          *)
(* Types are the finite TERMS of TypeId (C28), which this module EXTENDS:   *)
(* a named type is a reference to a declaration, so a package with          *)
(* recursive declarations is a finite table of terms and the type graph is  *)
(* the graph of declarations.  A WORLD is                                   *)
(*   decls  declarations: name, package, underlying term, methods           *)
(*          (name, pointer receiver or not, signature term)                 *)
(*   objs   the other package-level objects: constants (kind + exact value  *)
(*          text), variables, functions                                     *)
(*   calls  the packages Converter.Package is applied to, in order (the     *)
(*          converter keeps its named types from one call to the next)      *)
(* and is built step by step from menus (Part 1).                           *)
(*                                                                          *)
(* Part 2 is the conversion as a machine of small steps with an explicit    *)
(* stack: one frame per term being converted; a named type is entered in    *)
(* the memo table when its (still empty) copy is allocated, BEFORE its      *)
(* underlying type is converted; its methods are queued and attached when   *)
(* the objects of the call are done; interface copies are queued for        *)
(* completion.  A call returns when both queues are empty (the fixpoint:    *)
(* attaching methods may reach new named types and interfaces).             *)
(*                                                                          *)
(* Part 3 (M): the machine terminates on every world (cyclic ones           *)
(* included), the copy is isomorphic to the original (kinds, names, flags:  *)
(* variadic, embedded, receiver pointer-ness, channel direction, array      *)
(* length, tags; constant kinds and values), every named type is copied     *)
(* once, and when a call returns every named type reachable from the        *)
(* package has its methods and every interface is complete.                 *)
(* Broken variants: "memo-after" (the memo is written after the underlying  *)
(* type was converted: unbounded recursion on cycles, duplicates on shared  *)
(* names), "drop-variadic".                                                 *)
(***************************************************************************)
EXTENDS TypeId

CONSTANTS WMenu       \* "bfs" | "sim": size of the menus the world is built from

VARIABLES world,      \* [decls, objs, calls] under construction / being converted
          cv          \* the converter: [pc, call, work, stack, memo, out, toadd, tocomp, complete,
                      \*                 attached, scope, steps, ready]

cvars == <<cur, row, m, hist, world, cv>>

---------------------------------------------------------------------------
(* Part 1: worlds *)

ND == 3                                 \* declarations T1, S1 (package 1 = "x/p"), E1 (package 3 = "x/q")
DName == <<"T1", "S1", "E1">>
DPkg == <<1, 1, 3>>
CN(o) == Named(o, 1)
CM(n, p, ptr, sig) == [name |-> n, pkg |-> p, ptr |-> ptr, sig |-> sig]
SigOf(ps, rs, v) == Func(ps, rs, v)

\* underlying types offered to declaration o (o2, o3 = the other declarations)
UndMenu(o) ==
    LET a == IF o = 1 THEN 2 ELSE 1
        b == IF o = 3 THEN 2 ELSE 3
        base == {TInt,
                 Struct(<<Fld("Next", DPkg[o], FALSE, "", Ptr(CN(o)))>>),                \* self cycle
                 \* (an untagged field BEFORE the first tagged one: tags must stay with their fields)
                 Struct(<<Fld("b", DPkg[o], FALSE, "", Slice(CN(b))), Fld("A", DPkg[o], FALSE, "t", Ptr(CN(a)))>>),
                 Iface(<<Mth("M", DPkg[o], F0)>>, <<>>)}
        more == {Str,
                 Struct(<<Fld("A", DPkg[o], FALSE, "t", Ptr(CN(a))), Fld("b", DPkg[o], FALSE, "", Slice(CN(b))), Fld("C", DPkg[o], FALSE, "u", TInt)>>),
                 Struct(<<Fld(DName[a], DPkg[a], TRUE, "", CN(a)), Fld("B", DPkg[o], FALSE, "", Arr(3, TInt))>>),
                 Struct(<<Fld(DName[b], DPkg[b], TRUE, "", Ptr(CN(b)))>>),
                 Slice(CN(a)), MapT(Str, Ptr(CN(o))), Chan(2, CN(b)), Chan(1, TInt),
                 Func(<<CN(a), Slice(CN(o))>>, <<CN(b)>>, TRUE),
                 Func(<<>>, <<CN(o), Str>>, FALSE),
                 Iface(<<Mth("N", DPkg[o], Func(<<CN(o)>>, <<CN(a)>>, FALSE))>>, <<>>),
                 Iface(<<Mth("K", DPkg[o], F0)>>, <<a>>),                                 \* embeds declaration a
                 Ptr(CN(a))}
    IN IF WMenu = "bfs" THEN (IF o = 3 THEN {TInt, Iface(<<Mth("M", DPkg[o], F0)>>, <<>>)} ELSE base)
       ELSE base \cup more

\* method lists offered to declaration o (only if its underlying type may carry methods)
MethMenu(o) ==
    LET a == IF o = 1 THEN 2 ELSE 1
        b == IF o = 3 THEN 2 ELSE 3
        base == {<<>>,
                 <<CM("M", DPkg[o], FALSE, F0)>>,
                 \* a named type of the other package and an interface literal, first met here
                 <<CM("K", DPkg[o], TRUE, Func(<<Iface(<<Mth("N", DPkg[o], F0)>>, <<>>)>>, <<CN(b)>>, FALSE))>>}
        more == {<<CM("M", DPkg[o], TRUE, Func(<<CN(o)>>, <<Ptr(CN(a))>>, FALSE)),
                   CM("N", DPkg[o], FALSE, Func(<<Slice(TInt)>>, <<>>, TRUE))>>,
                 <<CM("m", DPkg[o], FALSE, Func(<<>>, <<CN(b)>>, FALSE))>>}
    IN IF WMenu = "bfs" THEN base ELSE base \cup more

\* constants: kind and exact value text (values beyond 32 and 64 bits, a non-dyadic rational)
ConstMenu == {[ckind |-> "int", cval |-> "7", typ |-> TInt],
              [ckind |-> "int", cval |-> "1180591620717411303424", typ |-> Basic("untyped int", FALSE)],
              [ckind |-> "float", cval |-> "1/3", typ |-> Basic("untyped float", FALSE)],
              [ckind |-> "string", cval |-> "s:\"q\"", typ |-> Str],
              [ckind |-> "bool", cval |-> "true", typ |-> Basic("untyped bool", FALSE)],
              [ckind |-> "int", cval |-> "-3", typ |-> CN(1)]}          \* typed by a declared type

ObjMenu ==
    LET base == {<<>>,
                 <<[pkg |-> 1, name |-> "V", kind |-> "var", typ |-> Ptr(CN(1)), ckind |-> "", cval |-> ""]>>,
                 <<[pkg |-> 1, name |-> "F", kind |-> "func", typ |-> Func(<<Str, Slice(CN(2))>>, <<CN(3)>>, TRUE), ckind |-> "", cval |-> ""]>>}
        consts == {<<[pkg |-> 1, name |-> "C", kind |-> "const", typ |-> c.typ, ckind |-> c.ckind, cval |-> c.cval]>> : c \in ConstMenu}
        more == {<<[pkg |-> 3, name |-> "W", kind |-> "var", typ |-> MapT(Str, CN(3)), ckind |-> "", cval |-> ""],
                   [pkg |-> 1, name |-> "G", kind |-> "func", typ |-> Func(<<>>, <<Iface(<<Mth("M", 1, F0)>>, <<>>)>>, FALSE), ckind |-> "", cval |-> ""]>>,
                 <<[pkg |-> 1, name |-> "v", kind |-> "var", typ |-> Chan(0, Chan(2, CN(2))), ckind |-> "", cval |-> ""]>>}
    IN IF WMenu = "bfs" THEN base \cup {<<[pkg |-> 1, name |-> "C", kind |-> "const", typ |-> CN(1), ckind |-> "int", cval |-> "-3"]>>}
       ELSE base \cup consts \cup more

CallMenu == IF WMenu = "bfs" THEN {<<1>>, <<3, 1>>} ELSE {<<1>>, <<3, 1>>, <<1, 3>>}

\* well-formedness of a chosen world (what go/types itself requires)
DUnd(w, o) == w.decls[o].und
IsIfaceDecl(w, o) == DUnd(w, o).k = "iface"
MayHaveMethods(u) == u.k \notin {"iface", "ptr"}
EmbedsOK(w) == \A o \in 1..ND : DUnd(w, o).k = "iface" => \A i \in 1..Len(DUnd(w, o).embeds) :
                    /\ IsIfaceDecl(w, DUnd(w, o).embeds[i])
                    /\ DUnd(w, DUnd(w, o).embeds[i]).embeds = <<>>          \* no embedding cycles
                    /\ \A x \in SeqSet(DUnd(w, o).methods) : \A y \in SeqSet(DUnd(w, DUnd(w, o).embeds[i]).methods) : x.name # y.name
\* a struct may embed T or *T only if T is not a pointer type, and *T only if T is not an interface
EmbFieldsOK(w) == \A o \in 1..ND : DUnd(w, o).k = "struct" => \A i \in 1..Len(DUnd(w, o).fields) :
                    LET f == DUnd(w, o).fields[i]
                        base == IF f.typ.k = "ptr" THEN f.typ.elem ELSE f.typ
                    IN f.emb => /\ DUnd(w, base.obj).k # "ptr"
                                /\ f.typ.k = "ptr" => DUnd(w, base.obj).k # "iface"
\* (underlying terms are never named: "type T U" chains are not expressible here)
WorldOK(w) == EmbedsOK(w) /\ EmbFieldsOK(w)

---------------------------------------------------------------------------
(* Part 2: the conversion machine *)

\* component terms of a term, in the order the converter visits them
Children(t) ==
    CASE t.k \in {"basic", "named"} -> <<>>
      [] t.k \in {"ptr", "slice", "array", "chan"} -> <<t.elem>>
      [] t.k = "map" -> <<t.key, t.elem>>
      [] t.k = "func" -> t.params \o t.results
      [] t.k = "struct" -> [i \in 1..Len(t.fields) |-> t.fields[i].typ]
      [] t.k = "iface" -> [i \in 1..Len(t.methods) |-> t.methods[i].sig] \o [i \in 1..Len(t.embeds) |-> CN(t.embeds[i])]

\* everything of a term that is not a component: kind and flags
Meta(t) ==
    CASE t.k = "basic" -> [k |-> "basic", kind |-> t.kind]
      [] t.k = "named" -> [k |-> "named", decl |-> t.obj]
      [] t.k \in {"ptr", "slice", "map"} -> [k |-> t.k]
      [] t.k = "array" -> [k |-> "array", len |-> t.len]
      [] t.k = "chan" -> [k |-> "chan", dir |-> t.dir]
      [] t.k = "func" -> [k |-> "func", np |-> Len(t.params),
                          variadic |-> IF Broken = "drop-variadic" THEN FALSE ELSE t.variadic]
      [] t.k = "struct" -> [k |-> "struct", fields |-> [i \in 1..Len(t.fields) |->
                              [name |-> t.fields[i].name, pkg |-> t.fields[i].pkg, emb |-> t.fields[i].emb, tag |-> t.fields[i].tag]]]
      [] t.k = "iface" -> [k |-> "iface", nm |-> Len(t.methods),
                           methods |-> [i \in 1..Len(t.methods) |-> [name |-> t.methods[i].name, pkg |-> t.methods[i].pkg]]]
TrueMeta(t) == IF t.k = "func" THEN [k |-> "func", np |-> Len(t.params), variadic |-> t.variadic] ELSE Meta(t)

NoMemo == [o \in 1..ND |-> 0]
EmptyCv == [pc |-> "build", call |-> 0, work |-> <<>>, stack |-> <<>>, memo |-> NoMemo, out |-> <<>>,
            toadd |-> <<>>, tocomp |-> {}, complete |-> {}, attached |-> [o \in 1..ND |-> <<>>],
            scope |-> {}, steps |-> 0, ready |-> <<>>,
            \* (classification of replay findings only) named types first met while the methods
            \* of the call were being attached: in the current call / per returned call
            late |-> {}, lates |-> <<>>]

\* work list of a call: the declarations and the other objects of the package
WorkOf(w, p) == [i \in 1..Cardinality({o \in 1..ND : DPkg[o] = p}) |-> <<"type", SetToSeq({o \in 1..ND : DPkg[o] = p})[i]>>]
                \o SelectSeq([i \in 1..Len(w.objs) |-> <<"obj", i>>], LAMBDA x : w.objs[x[2]].pkg = p)

\* declarations reachable from a term / from the objects of package p (through underlying
\* types and method signatures): they must be fully converted when the call returns
RECURSIVE TermDecls(_)
TermDecls(t) == IF t.k = "named" THEN {t.obj}
                ELSE UNION {TermDecls(Children(t)[i]) : i \in 1..Len(Children(t))}
DeclDecls(w, o) == TermDecls(w.decls[o].und) \cup UNION {TermDecls(w.decls[o].methods[i].sig) : i \in 1..Len(w.decls[o].methods)}
RECURSIVE Closure(_, _)
Closure(w, S) == LET T == S \cup UNION {DeclDecls(w, o) : o \in S}
                 IN IF T = S THEN S ELSE Closure(w, T)
ReachableFrom(w, p) ==
    Closure(w, {o \in 1..ND : DPkg[o] = p}
               \cup UNION {TermDecls(w.objs[i].typ) : i \in {j \in 1..Len(w.objs) : w.objs[j].pkg = p}})

Top == cv.stack[Len(cv.stack)]
Pop(s) == SubSeq(s, 1, Len(s) - 1)
SetTop(s, f) == [s EXCEPT ![Len(s)] = f]

\* hand the copy id to the frame below the popped one
Deliver(stack, id) ==
    LET s == Pop(stack)
        f == s[Len(s)]
    IN SetTop(s, [f EXCEPT !.acc = Append(f.acc, id), !.ci = f.ci + 1])

TermFrame(t) == [f |-> "term", t |-> t, ci |-> 1, acc |-> <<>>]

\* one step of the machine -------------------------------------------------
StartCall ==
    /\ cv.pc = "idle"
    /\ cv.call < Len(world.calls)
    /\ cv' = [cv EXCEPT !.pc = "objs", !.call = cv.call + 1, !.work = WorkOf(world, world.calls[cv.call + 1]),
                        !.steps = cv.steps + 1]

\* take the next item of the work list
NextItem ==
    /\ cv.pc = "objs" /\ cv.stack = <<>> /\ cv.work # <<>>
    /\ LET it == Head(cv.work)
       IN cv' = [cv EXCEPT !.work = Tail(cv.work), !.steps = cv.steps + 1,
                           !.stack = IF it[1] = "type"
                                     THEN <<[f |-> "sink", what |-> it, ci |-> 1, acc |-> <<>>], TermFrame(CN(it[2]))>>
                                     ELSE <<[f |-> "sink", what |-> it, ci |-> 1, acc |-> <<>>], TermFrame(world.objs[it[2]].typ)>>]

\* the top frame is a term
StepTerm ==
    /\ cv.stack # <<>> /\ Top.f = "term"
    /\ LET fr == Top
           t == fr.t
           ch == Children(t)
       IN IF t.k = "named"
          THEN IF cv.memo[t.obj] # 0
               THEN \* met before: the memo answers
                    cv' = [cv EXCEPT !.stack = Deliver(cv.stack, cv.memo[t.obj]), !.steps = cv.steps + 1]
               ELSE \* allocate the copy, enter it in the memo BEFORE converting the underlying type
                    LET id == Len(cv.out) + 1
                    IN cv' = [cv EXCEPT !.out = Append(cv.out, [meta |-> Meta(t), ch |-> <<>>, und |-> 0]),
                                        !.memo = IF Broken = "memo-after" THEN cv.memo ELSE [cv.memo EXCEPT ![t.obj] = id],
                                        !.late = IF cv.stack[1].what[1] = "meth" THEN cv.late \cup {t.obj} ELSE cv.late,
                                        !.stack = Append(SetTop(cv.stack, [f |-> "named", o |-> t.obj, id |-> id, ci |-> 1, acc |-> <<>>]),
                                                         TermFrame(world.decls[t.obj].und)),
                                        !.steps = cv.steps + 1]
          ELSE IF fr.ci <= Len(ch)
               THEN cv' = [cv EXCEPT !.stack = Append(cv.stack, TermFrame(ch[fr.ci])), !.steps = cv.steps + 1]
               ELSE \* all components converted: make the copy
                    LET id == Len(cv.out) + 1
                    IN cv' = [cv EXCEPT !.out = Append(cv.out, [meta |-> Meta(t), ch |-> fr.acc, und |-> 0]),
                                        !.tocomp = IF t.k = "iface" THEN cv.tocomp \cup {id} ELSE cv.tocomp,
                                        !.stack = Deliver(cv.stack, id),
                                        !.steps = cv.steps + 1]

\* the underlying type of a named type came back
StepNamed ==
    /\ cv.stack # <<>> /\ Top.f = "named" /\ Top.ci = 2
    /\ LET fr == Top
       IN cv' = [cv EXCEPT !.out = [cv.out EXCEPT ![fr.id].und = fr.acc[1]],
                           !.memo = [cv.memo EXCEPT ![fr.o] = fr.id],
                           !.toadd = IF world.decls[fr.o].methods # <<>> THEN Append(cv.toadd, fr.o) ELSE cv.toadd,
                           !.stack = Deliver(cv.stack, fr.id),
                           !.steps = cv.steps + 1]

\* a result reached the bottom frame
StepSink ==
    /\ cv.stack # <<>> /\ Top.f = "sink" /\ Top.ci = 2
    /\ LET fr == Top
           it == fr.what
       IN CASE it[1] = "type" ->
                 cv' = [cv EXCEPT !.stack = <<>>, !.steps = cv.steps + 1,
                                  !.scope = cv.scope \cup {[pkg |-> DPkg[it[2]], name |-> DName[it[2]], kind |-> "type",
                                                            typ |-> fr.acc[1], ckind |-> "", cval |-> ""]}]
            [] it[1] = "obj" ->
                 LET ob == world.objs[it[2]]
                 IN cv' = [cv EXCEPT !.stack = <<>>, !.steps = cv.steps + 1,
                                     !.scope = cv.scope \cup {[pkg |-> ob.pkg, name |-> ob.name, kind |-> ob.kind,
                                                               typ |-> fr.acc[1], ckind |-> ob.ckind, cval |-> ob.cval]}]
            [] it[1] = "meth" ->          \* <<"meth", o, k>>: signature of method k of declaration o
                 LET md == world.decls[it[2]].methods[it[3]]
                 IN cv' = [cv EXCEPT !.stack = <<>>, !.steps = cv.steps + 1,
                                     !.attached = [cv.attached EXCEPT ![it[2]] =
                                                     Append(cv.attached[it[2]], [name |-> md.name, pkg |-> md.pkg, ptr |-> md.ptr, sig |-> fr.acc[1]])]]

\* the objects are done: complete the interfaces, attach the methods, until nothing is queued
Fixpoint ==
    /\ cv.pc = "objs" /\ cv.stack = <<>> /\ cv.work = <<>>
    /\ IF cv.tocomp # {}
       THEN cv' = [cv EXCEPT !.complete = cv.complete \cup cv.tocomp, !.tocomp = {}, !.steps = cv.steps + 1]
       ELSE IF cv.toadd # <<>>
       THEN LET o == Head(cv.toadd)
                k == Len(cv.attached[o]) + 1
            IN IF k <= Len(world.decls[o].methods)
               THEN cv' = [cv EXCEPT !.steps = cv.steps + 1,
                                     !.stack = <<[f |-> "sink", what |-> <<"meth", o, k>>, ci |-> 1, acc |-> <<>>],
                                                 TermFrame(world.decls[o].methods[k].sig)>>]
               ELSE cv' = [cv EXCEPT !.toadd = Tail(cv.toadd), !.steps = cv.steps + 1]
       ELSE \* Package() returns
            cv' = [cv EXCEPT !.pc = IF cv.call = Len(world.calls) THEN "done" ELSE "idle",
                             !.ready = Append(cv.ready, ReachableFrom(world, world.calls[cv.call])),
                             !.lates = Append(cv.lates, cv.late), !.late = {},
                             !.steps = cv.steps + 1]

\* world construction ------------------------------------------------------
Build ==
    /\ cv.pc = "build"
    /\ LET n == Len(world.decls)
       IN IF n < ND
          THEN \E u \in UndMenu(n + 1) : \E ms \in (IF MayHaveMethods(u) THEN MethMenu(n + 1) ELSE {<<>>}) :
                  /\ world' = [world EXCEPT !.decls = Append(world.decls,
                                        [name |-> DName[n + 1], pkg |-> DPkg[n + 1], und |-> u, methods |-> ms])]
                  /\ UNCHANGED cv
          ELSE /\ WorldOK(world)
               /\ \E os \in ObjMenu : \E cs \in CallMenu :
                    /\ world' = [world EXCEPT !.objs = os, !.calls = cs]
                    /\ cv' = [cv EXCEPT !.pc = "idle"]

Convert ==
    /\ cv.pc \in {"idle", "objs"}
    /\ UNCHANGED world
    /\ \/ StartCall
       \/ NextItem
       \/ StepTerm
       \/ StepNamed
       \/ StepSink
       \/ Fixpoint

CInit == /\ cur = <<>>
         /\ row = [gm |-> {}, go |-> {}]
         /\ m = <<>>
         /\ hist = <<>>
         /\ world = [decls |-> <<>>, objs |-> <<>>, calls |-> <<>>]
         /\ cv = EmptyCv

CNext == /\ UNCHANGED <<cur, row, m, hist>>
         /\ Build \/ Convert

SpecConverter == CInit /\ [][CNext]_cvars

---------------------------------------------------------------------------
(* Part 3: properties *)

RECURSIVE TermSize(_)
TermSize(t) == 1 + FoldSeq(LAMBDA c, acc : acc + TermSize(c), 0, Children(t))
WorldSize == FoldSeq(LAMBDA d, acc : acc + TermSize(d.und) + 1 +
                                     FoldSeq(LAMBDA x, a2 : a2 + TermSize(x.sig) + 1, 0, d.methods), 0, world.decls)
             + FoldSeq(LAMBDA ob, acc : acc + TermSize(ob.typ) + 1, 0, world.objs)

\* termination: the number of steps and the depth of the stack are bounded by the size of the
\* world (every term is visited a bounded number of times per call), cycles included
Terminates == /\ cv.steps <= 6 * (WorldSize + 4) * (Len(world.calls) + 1) + 8
              /\ Len(cv.stack) <= WorldSize + 3

\* the copy of term t is out node id
RECURSIVE Iso(_, _)
Iso(t, id) ==
    /\ id \in 1..Len(cv.out)
    /\ cv.out[id].meta = TrueMeta(t)
    /\ t.k # "named" =>
         /\ Len(cv.out[id].ch) = Len(Children(t))
         /\ \A i \in 1..Len(Children(t)) : Iso(Children(t)[i], cv.out[id].ch[i])

Done == cv.pc = "done"
CallReturned == cv.pc \in {"idle", "done"} /\ cv.call > 0

\* every named type is copied once
ConvertedOnce == \A o \in 1..ND : Cardinality({i \in 1..Len(cv.out) : cv.out[i].meta = [k |-> "named", decl |-> o]}) <= 1

\* when a call has returned: the objects of the package are all there with their kinds, names,
\* constant values and isomorphic types; every named type reachable from the package has an
\* isomorphic underlying type and all its methods (names, receivers, isomorphic signatures);
\* no interface is left incomplete, nothing is left queued
Isomorphic ==
    CallReturned =>
      LET p == world.calls[cv.call]
      IN /\ cv.toadd = <<>> /\ cv.tocomp = {}
         /\ \A o \in {x \in 1..ND : DPkg[x] = p} :
               \E s \in cv.scope : s.kind = "type" /\ s.pkg = p /\ s.name = DName[o] /\ s.typ = cv.memo[o] /\ cv.memo[o] # 0
         /\ \A i \in {j \in 1..Len(world.objs) : world.objs[j].pkg = p} :
               LET ob == world.objs[i]
               IN \E s \in cv.scope : /\ s.kind = ob.kind /\ s.pkg = p /\ s.name = ob.name
                                      /\ s.ckind = ob.ckind /\ s.cval = ob.cval
                                      /\ Iso(ob.typ, s.typ)
         /\ \A o \in ReachableFrom(world, p) :
               /\ cv.memo[o] # 0
               /\ cv.out[cv.memo[o]].und # 0
               /\ Iso(world.decls[o].und, cv.out[cv.memo[o]].und)
               /\ Len(cv.attached[o]) = Len(world.decls[o].methods)
               /\ \A k \in 1..Len(world.decls[o].methods) :
                     LET md == world.decls[o].methods[k]
                         a == cv.attached[o][k]
                     IN a.name = md.name /\ a.pkg = md.pkg /\ a.ptr = md.ptr /\ Iso(md.sig, a.sig)
         /\ \A i \in 1..Len(cv.out) : cv.out[i].meta.k = "iface" => i \in cv.complete

CTypeOK == /\ cv.pc \in {"build", "idle", "objs", "done"}
           /\ cv.call \in 0..Len(world.calls)

---------------------------------------------------------------------------
(* Behaviour emission (R): one record per converted world *)

EmitWorld ==
    IF ~EmitOn THEN TRUE
    ELSE IF Done
         THEN PrintT(ToJson([t |-> "world", decls |-> world.decls, objs |-> world.objs, calls |-> world.calls,
                             pkgs |-> PkgPath, exported |-> Exported,
                             ready |-> cv.ready, lates |-> cv.lates, steps |-> cv.steps, copies |-> Len(cv.out)]))
    ELSE TRUE
=============================================================================

-------------------------------- MODULE Exec --------------------------------
(***************************************************************************)
(* Implementation-level model of gomacro's statement executor               *)
(* (fast/code.go: exec, reExecWithFlags, spinInterrupt, applyAsyncSignal;   *)
(* fast/interpreter.go: Interp.Interrupt -> Run.interrupt) as far as the    *)
(* asynchronous interrupt is concerned (property C13).                      *)
(*                                                                          *)
(* One activation of the executor runs the statements of one function       *)
(* frame in two phases:                                                     *)
(*   phase 1: Unroll groups of Group statements; after each complete group  *)
(*            the pending-signal word is polled (`run.Signals.IsEmpty()`);  *)
(*   phase 2: endless blocks of Block statements with Run.Interrupt =       *)
(*            spinInterrupt, polled after each block.                       *)
(* Every activation also tests the asynchronous signal at ENTRY and at      *)
(* EXIT (label finish / signal, and the deferred restore()).                *)
(* The environment may set the asynchronous flag at any time                *)
(* (Interp.Interrupt from a compiled hook or from another goroutine).       *)
(*                                                                          *)
(* Programs are abstract: a main loop body, a called function body and a    *)
(* deferred-call body, each a sequence of statement kinds                   *)
(*   "h" call of the compiled hook    "p" plain statement                   *)
(*   "c" call of the interpreted function fn                                *)
(*   "d" call of a function whose deferred closure has body dfn             *)
(***************************************************************************)
EXTENDS Naturals, Sequences, FiniteSets, TLC, Json

CONSTANTS Shapes,      \* set of [loop, fn, dfn] records
          MaxK,        \* the interrupt is raised by the k-th hook call, k in 1..MaxK
          Unroll, Group, Block,   \* 5, 14, 15 in the code
          PollPhase2,  \* TRUE in the code; FALSE: broken variant (no poll in the spin loop)
          EntryCheck,  \* TRUE in the code; FALSE: broken variant (no test at activation entry)
          MaxSteps,    \* bound on statements executed (the loop is endless)
          EmitOn

VARIABLES shape, k, st, async, hooks, hooksAfter, since, steps, outcome

vars == <<shape, k, st, async, hooks, hooksAfter, since, steps, outcome>>

\* the largest number of statements that may still run once the flag is set
Bound == IF Group > Block THEN Group - 1 ELSE Block - 1

Act(code, kind) == [code |-> code, ip |-> 1, grp |-> 0, n1 |-> 0, phase |-> 1, kind |-> kind, born |-> FALSE]

Init == /\ shape \in Shapes
        /\ k \in 1..MaxK
        /\ st = <<Act(shape.loop, "main")>>
        /\ async = FALSE
        /\ hooks = 0 /\ hooksAfter = 0 /\ since = 0 /\ steps = 0
        /\ outcome = "running"

Top == st[Len(st)]
Running == outcome = "running" /\ st # <<>>

\* applyAsyncSignal: panic(SigInterrupt)
\* (the stack is kept so that the deferred calls the panic must still run can be counted)
Service == /\ outcome' = "interrupted" /\ st' = st

\* the interrupt is a panic: while it unwinds, the deferred closure of every active function
\* that has one ("u" activations) runs, exactly once
Cleanups == Cardinality({i \in 1..Len(st) : st[i].kind = "u"})

\* the poll after a statement: returns the activation with updated counters, or "service"
AfterStmt(A) ==
    LET g == A.grp + 1 IN
    IF A.phase = 1
    THEN IF g = Group
         THEN IF A.n1 + 1 = Unroll
              THEN [A EXCEPT !.grp = 0, !.n1 = 0, !.phase = 2]
              ELSE [A EXCEPT !.grp = 0, !.n1 = @ + 1]
         ELSE [A EXCEPT !.grp = g]
    ELSE IF g = Block THEN [A EXCEPT !.grp = 0] ELSE [A EXCEPT !.grp = g]

PollsNow(A) == \/ A.phase = 1 /\ A.grp + 1 = Group
               \/ A.phase = 2 /\ A.grp + 1 = Block /\ PollPhase2

\* execute one statement of the top activation
Stmt ==
    /\ Running /\ steps < MaxSteps
    /\ LET A == Top
           wrap == A.kind = "main" /\ A.ip > Len(A.code)
           ip == IF wrap THEN 1 ELSE A.ip
       IN /\ ip <= Len(A.code)
          /\ LET s == A.code[ip]
                 raises == s = "h" /\ hooks + 1 = k
                 async1 == async \/ raises
                 A1 == AfterStmt([A EXCEPT !.ip = ip + 1])
                 polled == PollsNow(A)
             IN /\ steps' = steps + 1
                /\ since' = IF async THEN since + 1 ELSE since
                /\ hooks' = IF s = "h" THEN hooks + 1 ELSE hooks
                /\ hooksAfter' = IF s = "h" /\ async THEN hooksAfter + 1 ELSE hooksAfter
                /\ async' = async1
                /\ IF s \in {"c", "d", "u"}
                   THEN \* a call: the callee's activation tests the flag at entry
                        IF async1 /\ EntryCheck
                        THEN Service
                        ELSE /\ st' = Append([st EXCEPT ![Len(st)] = A1],
                                             [Act(IF s = "c" THEN shape.fn ELSE IF s = "d" THEN shape.dfn ELSE shape.ufn, s) EXCEPT !.born = async1])
                             /\ UNCHANGED outcome
                   ELSE IF polled /\ async1
                        THEN Service
                        ELSE /\ st' = [st EXCEPT ![Len(st)] = A1] /\ UNCHANGED outcome
    /\ UNCHANGED <<shape, k>>

\* a called function reaches the end of its body: the return statement, then the exit test
Return ==
    /\ Running /\ Top.kind # "main" /\ Top.ip > Len(Top.code)
    /\ IF async
       THEN Service
       ELSE /\ st' = SubSeq(st, 1, Len(st) - 1) /\ UNCHANGED outcome
    /\ UNCHANGED <<shape, k, async, hooks, hooksAfter, since, steps>>

Next == Stmt \/ Return
Spec == Init /\ [][Next]_vars
FairSpec == Spec /\ WF_vars(Next)

----------------------------------------------------------------------------
\* once the flag is set at most Bound further statements run, in total
Prompt == since <= Bound
\* an activation created after the flag was set never executes a statement
NoNewFrame == \A i \in 1..Len(st) : st[i].born => (st[i].ip = 1 /\ st[i].grp = 0)
\* the interrupt is the only way out of the endless loop
Outcome == outcome = "interrupted" => async
\* liveness (checked under FairSpec with MaxSteps large enough): an interrupt is serviced
Live == async ~> (outcome = "interrupted")

Emit == IF EmitOn /\ outcome = "interrupted"
        THEN PrintT(ToJson([shape |-> shape, k |-> k, hooksAfter |-> hooksAfter, since |-> since, bound |-> Bound,
                            cleanups |-> Cleanups]))
        ELSE TRUE
=============================================================================

-------------------------------- MODULE Repl --------------------------------
(***************************************************************************)
(* REPL-style evaluation of top-level declarations and statements, one per  *)
(* evaluation (fast/repl.go Interp.prepareEnv, fast/declaration.go          *)
(* Comp.NewBind, fast/global.go CompBinds.IntBindNum / IntBindMax,          *)
(* Env.Ints / Env.IntAddressTaken).                                         *)
(*                                                                          *)
(* Go level: every variable is a cell; `p := &v` aliases the cell for ever. *)
(* Implementation level: variables of integer-slot kinds live in one array  *)
(* (Env.Ints) that grows by reallocation + copy; once the address of a slot *)
(* escaped the array must never be reallocated, so later variables are      *)
(* boxed.  One evaluation = Compile (slot decisions read IntBindMax), then  *)
(* PrepareEnv (grow, or record IntBindMax = capacity if an address was      *)
(* taken), then Run (may take addresses).                                   *)
(* Kinds: "int" (1 slot), "c128" (complex128: 2 slots), "str" (boxed).      *)
(*                                                                          *)
(* A declaration `var a_1, ..., a_n K` is ONE block [kind, n, nint] where   *)
(* nint is how many of its variables received integer slots (the first      *)
(* nint ones: Comp.NewBind is called left to right), so the model runs with *)
(* the code's real constants (first capacity 1024, doubling).               *)
(* Variable (b, i) is the i-th variable of block b; its initial value is    *)
(* 1000*b + i (mod 100) and assignments store small numbers.                *)
(***************************************************************************)
EXTENDS Naturals, Sequences, FiniteSets, TLC, Json

CONSTANTS Chunk,          \* minimum growth of the slot array (1024 in the code)
          MaxSteps, MaxBlocks, DeclSizes, Kinds,
          RecordEarly,    \* TRUE: IntBindMax is also recorded when compilation starts
                          \*       (FALSE: only by PrepareEnv, i.e. after the next input was compiled)
          SlotAware,      \* TRUE: the limit test accounts for two-slot kinds
          EmitOn, EmitAt

VARIABLES blocks,    \* sequence of [kind, n, nint]
          cells,     \* function <<b, i>> -> value, for the variables that were assigned
          ptrs,      \* sequence of [b, i, gen]: pointers taken, with the array generation then
          intNum, cap, intMax, addrTaken, gen,
          err,       \* "" or the internal error that aborted an evaluation
          hist

vars == <<blocks, cells, ptrs, intNum, cap, intMax, addrTaken, gen, err, hist>>

Slots(k) == IF k = "c128" THEN 2 ELSE 1
Max(a, b) == IF a > b THEN a ELSE b
Min(a, b) == IF a < b THEN a ELSE b

Init == /\ blocks = <<>> /\ cells = <<>> /\ ptrs = <<>> /\ intNum = 0 /\ cap = 0 /\ intMax = 0
        /\ addrTaken = FALSE /\ gen = 0 /\ err = "" /\ hist = <<>>

\* IntBindMax as seen by the compiler of this evaluation
MaxAtCompile == IF RecordEarly /\ addrTaken /\ intMax = 0 THEN cap ELSE intMax

\* how many of n variables of kind k declared one after the other get integer slots when `num`
\* slots are in use and the limit is mx (Comp.NewBind: `IntBindMax == 0 || IntBindNum < IntBindMax`)
FitInt(n, k, num, mx) ==
    IF k \notin {"int", "c128"} THEN 0
    ELSE IF mx = 0 THEN n
    ELSE IF num >= mx THEN 0
    ELSE LET s == Slots(k)
             room == mx - num
             cnt == IF SlotAware THEN room \div s ELSE (room + s - 1) \div s
         IN Min(n, cnt)

\* PrepareEnv: <<cap', gen', err', intMax'>>
Prepare(num, mx) ==
    IF cap < num
    THEN IF addrTaken
         THEN <<cap, gen, "realloc-after-address-taken", mx>>
         ELSE LET c1 == Max(Max(2 * cap, num), cap + Chunk) IN <<c1, gen + 1, "", mx>>
    ELSE <<cap, gen, "", IF addrTaken THEN cap ELSE mx>>

IsInt(b, i) == i <= blocks[b].nint
InitVal(b, i) == (7 * b + i) % 100
ValOf(c, b, i) == IF <<b, i>> \in DOMAIN c THEN c[<<b, i>>] ELSE InitVal(b, i)
PutCell(c, b, i, x) == [k \in DOMAIN c \cup {<<b, i>>} |-> IF k = <<b, i>> THEN x ELSE c[k]]

\* the variables worth observing in block b: first, last, last with an integer slot, first boxed
Probes(b) == LET B == blocks[b] IN
             {i \in {1, B.n, B.nint, B.nint + 1} : i >= 1 /\ i <= B.n}
ObsOf(c, p) == [ptrs |-> [j \in 1..Len(p) |-> ValOf(c, p[j].b, p[j].i)]]

\* var a_1, ..., a_n K   (one evaluation)
Decl(n, k) ==
    /\ Len(blocks) < MaxBlocks
    /\ LET mx == MaxAtCompile
           f == FitInt(n, k, intNum, mx)
           num1 == intNum + f * Slots(k)
           p == Prepare(num1, mx)
       IN /\ intNum' = num1
          /\ cap' = p[1] /\ gen' = p[2] /\ err' = p[3] /\ intMax' = p[4]
          /\ blocks' = Append(blocks, [kind |-> k, n |-> n, nint |-> f])
          /\ hist' = Append(hist, [op |-> "decl", n |-> n, kind |-> k, nint |-> f, err |-> p[3],
                                   after |-> ObsOf(cells, ptrs)])
    /\ UNCHANGED <<cells, ptrs, addrTaken>>

\* p := &a    for a probe variable of an existing block; `how` says where the address-of
\* expression stands: directly at top level, inside a function called at once, or inside a
\* nested block of such a function (the global is then reached through outer frames)
AddrOf(b, i, how) ==
    /\ Len(ptrs) < 2
    /\ LET mx == MaxAtCompile
           p == Prepare(intNum, mx)
       IN /\ cap' = p[1] /\ gen' = p[2] /\ err' = p[3] /\ intMax' = p[4]
          /\ ptrs' = Append(ptrs, [b |-> b, i |-> i, gen |-> p[2]])
          /\ addrTaken' = (addrTaken \/ IsInt(b, i))
          /\ hist' = Append(hist, [op |-> "addr", b |-> b, i |-> i, how |-> how, err |-> p[3], after |-> ObsOf(cells, ptrs')])
    /\ UNCHANGED <<blocks, cells, intNum>>

\* a = x   (via = 0)   or   *p = x   (via = index of the pointer)
Set(b, i, x, via) ==
    /\ LET mx == MaxAtCompile
           p == Prepare(intNum, mx)
       IN cap' = p[1] /\ gen' = p[2] /\ err' = p[3] /\ intMax' = p[4]
    /\ cells' = PutCell(cells, b, i, x)
    /\ hist' = Append(hist, [op |-> "set", b |-> b, i |-> i, x |-> x, via |-> via, err |-> err',
                             after |-> ObsOf(cells', ptrs)])
    /\ UNCHANGED <<blocks, ptrs, intNum, addrTaken>>

Next == /\ Len(hist) < MaxSteps /\ err = ""
        /\ \/ \E n \in DeclSizes, k \in Kinds : Decl(n, k)
           \/ \E b \in 1..Len(blocks) : \E i \in Probes(b) : \E how \in {"direct", "func", "block"} : AddrOf(b, i, how)
           \/ \E b \in 1..Len(blocks) : \E i \in Probes(b) : Set(b, i, 100 + Len(hist), 0)
           \/ \E j \in 1..Len(ptrs) : Set(ptrs[j].b, ptrs[j].i, 200 + Len(hist), j)

Spec == Init /\ [][Next]_vars

----------------------------------------------------------------------------
\* a pointer into the slot array still points into the CURRENT array
AliasPreserved == \A j \in 1..Len(ptrs) : IsInt(ptrs[j].b, ptrs[j].i) => ptrs[j].gen = gen
\* evaluations of well-formed input never fail inside the interpreter
NoInternalError == err = ""
\* the slot array never holds more than its capacity
Fits == err = "" => intNum <= cap
\* the bookkeeping the protection relies on
LimitRecorded == (addrTaken /\ intMax # 0) => intMax = cap

Emit == IF EmitOn /\ (Len(hist) = EmitAt \/ err # "")
        THEN PrintT(ToJson([hist |-> hist, err |-> err,
                            final |-> {[b |-> b, i |-> i, v |-> ValOf(cells, b, i)] :
                                          <<b, i>> \in UNION {{<<bb, ii>> : ii \in Probes(bb)} : bb \in 1..Len(blocks)}}]))
        ELSE TRUE
=============================================================================

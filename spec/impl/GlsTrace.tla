------------------------------ MODULE GlsTrace ------------------------------
(***************************************************************************)
(* Trace validation of the goroutine registry: events recorded by the      *)
(* verif hook INSIDE the registry's spin lock (sequence number incremented *)
(* under the same lock, so the file order is the order of the critical     *)
(* sections) are accepted iff they are a behaviour of the registry part of *)
(* Gls.tla: a map from identity to run in which                            *)
(*   get   observes exactly the current binding,                           *)
(*   store binds an identity to a run OWNED by that identity,              *)
(*   del   removes the binding of the deleting run's own identity.         *)
(* A lost update, a read outside the lock, a record registered under a     *)
(* foreign identity or a delete of somebody else's binding makes the       *)
(* trace unexplainable.  "reset" starts the next recorded trace.           *)
(***************************************************************************)
EXTENDS Naturals, Sequences, TLC, Json

Trace == ndJsonDeserialize("gls_trace.ndjson")

VARIABLES reg,    \* identity -> run (0 = unbound), as a function over the identities seen
          owner,  \* run -> identity, fixed at the run's first registration
          l       \* next line of the trace

vars == <<reg, owner, l>>

Get(f, k) == IF k \in DOMAIN f THEN f[k] ELSE 0
Put(f, k, v) == [x \in DOMAIN f \cup {k} |-> IF x = k THEN v ELSE f[x]]

Init == reg = <<>> /\ owner = <<>> /\ l = 1

IsEvent(op) == l <= Len(Trace) /\ Trace[l].op = op /\ l' = l + 1

EvGet == /\ IsEvent("get")
         /\ LET e == Trace[l] IN
            /\ e.found = (Get(reg, e.goid) # 0)
            /\ (e.found => e.run = Get(reg, e.goid))
         /\ UNCHANGED <<reg, owner>>

EvStore == /\ IsEvent("store")
           /\ LET e == Trace[l] IN
              /\ e.run # 0
              /\ e.rungoid = e.goid                      \* registered under its owner's identity
              /\ (Get(owner, e.run) # 0 => Get(owner, e.run) = e.goid)
              /\ reg' = Put(reg, e.goid, e.run)
              /\ owner' = Put(owner, e.run, e.goid)

EvDel == /\ IsEvent("del")
         /\ LET e == Trace[l] IN
            /\ e.rungoid = e.goid
            /\ reg' = Put(reg, e.goid, 0)
         /\ UNCHANGED owner

EvReset == /\ IsEvent("reset") /\ reg' = <<>> /\ owner' = <<>>

Next == EvGet \/ EvStore \/ EvDel \/ EvReset
Spec == Init /\ [][Next]_vars

Accepted == TLCGet("stats").diameter - 1 = Len(Trace)
\* printed when the trace is rejected: the longest accepted prefix
Prefix == TLCGet("stats").diameter - 1
=============================================================================

------------------------------- MODULE Frames -------------------------------
(***************************************************************************)
(* Implementation-level model of gomacro's per-goroutine frame pool         *)
(* (fast/compile.go: newEnv4Func, Env.MarkUsedByClosure, Env.freeEnv;       *)
(* fast/global.go: Run.Pool, Run.PoolSize, Env.UsedByClosure,               *)
(* Env.IntAddressTaken).                                                    *)
(*                                                                          *)
(* A frame object has an identity `f`, a generation (how many times it was  *)
(* handed out), the identity of its integer-slot array, and the two flags.  *)
(* Escaped closures hold (frame, generation); escaped pointers hold the     *)
(* identity of an integer-slot array.  NoStaleRef says that nothing that    *)
(* escaped can ever observe a frame or slot array that was handed out       *)
(* again: this is what makes the pool invisible (property C06).             *)
(***************************************************************************)
EXTENDS Naturals, Sequences, FiniteSets, TLC

CONSTANTS PoolCap,        \* 32 in the code
          MaxFrames,      \* bound on distinct frame objects
          MaxDepth,       \* bound on the call stack
          MaxGen,         \* bound on re-use of one frame object
          MarkOnCapture,  \* TRUE in the code (MarkUsedByClosure at closure creation)
          MarkChain,      \* TRUE in the code (marks every enclosing frame, not only the innermost)
          DropIntsOnFree  \* TRUE in the code (a frame whose slot address escaped drops its array)

VARIABLES frames,   \* [1..n -> [gen, ints, used, addr, outer]]
          narr,     \* number of slot arrays created
          stack,    \* call stack: sequence of frame ids
          pool,     \* sequence of pooled frame ids (top = last)
          crefs,    \* escaped closure references: set of <<frame, gen>>
          prefs     \* escaped pointers: set of slot-array ids

vars == <<frames, narr, stack, pool, crefs, prefs>>

Init == /\ frames = <<>> /\ narr = 0 /\ stack = <<>> /\ pool = <<>> /\ crefs = {} /\ prefs = {}

Top == stack[Len(stack)]

\* newEnv4Func: pop the pool or allocate; the lexical outer frame is the caller's frame when the
\* callee is a function literal created there (modelled: every callee may be such a literal)
Call(lexical) ==
    /\ Len(stack) < MaxDepth
    /\ LET outer == IF lexical /\ stack # <<>> THEN Top ELSE 0 IN
       IF pool # <<>>
       THEN LET f == pool[Len(pool)] IN
            /\ frames[f].gen < MaxGen
            /\ pool' = SubSeq(pool, 1, Len(pool) - 1)
            /\ frames' = [frames EXCEPT ![f].gen = @ + 1, ![f].outer = outer,
                                        ![f].ints = IF @ = 0 THEN narr + 1 ELSE @]
            /\ narr' = IF frames[f].ints = 0 THEN narr + 1 ELSE narr
            /\ stack' = Append(stack, f)
       ELSE /\ Len(frames) < MaxFrames
            /\ frames' = Append(frames, [gen |-> 1, ints |-> narr + 1, used |-> FALSE, addr |-> FALSE, outer |-> outer])
            /\ narr' = narr + 1
            /\ stack' = Append(stack, Len(frames) + 1)
            /\ UNCHANGED pool
    /\ UNCHANGED <<crefs, prefs>>

\* the chain of lexically enclosing frames of f (f first)
RECURSIVE Chain(_)
Chain(f) == IF f = 0 THEN <<>> ELSE <<f>> \o Chain(frames[f].outer)

\* a function literal is evaluated in the top frame: it captures the whole lexical chain
Capture ==
    /\ stack # <<>>
    /\ LET ch == Chain(Top)
           marked == IF ~MarkOnCapture THEN {}
                     ELSE IF MarkChain THEN {ch[i] : i \in 1..Len(ch)} ELSE {Top}
       IN /\ frames' = [f \in 1..Len(frames) |-> IF f \in marked THEN [frames[f] EXCEPT !.used = TRUE] ELSE frames[f]]
          /\ crefs' = crefs \cup {<<ch[i], frames[ch[i]].gen>> : i \in 1..Len(ch)}
    /\ UNCHANGED <<narr, stack, pool, prefs>>

\* &x of an integer-slot local of the top frame escapes
TakeAddr ==
    /\ stack # <<>>
    /\ frames' = [frames EXCEPT ![Top].addr = TRUE]
    /\ prefs' = prefs \cup {frames[Top].ints}
    /\ UNCHANGED <<narr, stack, pool, crefs>>

\* freeEnv4Func / freeEnv
Return ==
    /\ stack # <<>>
    /\ LET f == Top IN
       /\ stack' = SubSeq(stack, 1, Len(stack) - 1)
       /\ IF frames[f].used \/ Len(pool) >= PoolCap
          THEN UNCHANGED <<frames, pool>>
          ELSE /\ frames' = [frames EXCEPT ![f].ints = IF frames[f].addr /\ DropIntsOnFree THEN 0 ELSE @,
                                           ![f].addr = FALSE, ![f].outer = 0]
               /\ pool' = Append(pool, f)
    /\ UNCHANGED <<narr, crefs, prefs>>

Next == Call(TRUE) \/ Call(FALSE) \/ Capture \/ TakeAddr \/ Return
Spec == Init /\ [][Next]_vars

----------------------------------------------------------------------------
InPool(f) == \E i \in 1..Len(pool) : pool[i] = f

\* no escaped closure can reach a frame that is pooled or was handed out again, and no
\* escaped pointer can reach a slot array that a pooled or re-issued frame still owns
NoStaleRef ==
    /\ \A r \in crefs : ~InPool(r[1]) /\ frames[r[1]].gen = r[2]
    /\ \A a \in prefs : \A f \in 1..Len(frames) :
          frames[f].ints = a => (~InPool(f) /\ (frames[f].addr \/ frames[f].used \/ \E i \in 1..Len(stack) : stack[i] = f))

PoolOK == /\ Len(pool) <= PoolCap
          /\ \A i, j \in 1..Len(pool) : i # j => pool[i] # pool[j]
          /\ \A i \in 1..Len(pool) : ~frames[pool[i]].used /\ \A k \in 1..Len(stack) : stack[k] # pool[i]
=============================================================================

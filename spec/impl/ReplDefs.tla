------------------------------ MODULE ReplDefs ------------------------------
(***************************************************************************)
(* REPL histories of declarations, redefinitions and FAILING inputs          *)
(* (property C15; fast/function.go Comp.DeclFunc and its deferred restore,   *)
(* fast/declaration.go, fast/type.go Comp.DeclNamedType, fast/repl.go:       *)
(* compilation happens entirely before execution).                           *)
(*                                                                           *)
(* Go-level meaning of a REPL: an environment of names.  A successful        *)
(* evaluation (re)binds a name; a variable remembers the VERSION of the      *)
(* named type it was declared with, and stays readable with that version's   *)
(* fields after the type name is rebound.  An input that fails to compile    *)
(* is a stutter on the environment and runs none of its code, whichever      *)
(* part of it was valid.                                                     *)
(*                                                                           *)
(* Names: variables v, w; constant c; function f; type T.                    *)
(* Type variants of T: 1 = struct{A int}, 2 = struct{B string},              *)
(*                     3 = struct{A int; C int}.                             *)
(* Failing inputs (all mention an existing or a new name `n`):               *)
(*   "parse"     var n =                                                     *)
(*   "type"      var n int = "s"                                             *)
(*   "second"    ev("ran"); var n string = "s"; var zz int = undefinedName   *)
(*               (valid statements first, then an error: nothing may stick)  *)
(*   "funcbody"  func n() int { ev("ran"); return undefinedName }            *)
(*   "typedecl"  type n struct{ A undefinedType }                            *)
(*   "funcsig"   func f(a, b string) int { ev("ran"); return undefinedName } *)
(*               (a redefinition of f with ANOTHER signature that fails)     *)
(*   "funcsig2"  func f(a string) string { return a }; var zz int = undefinedName *)
(*               (a valid redefinition with another signature, then an error) *)
(*   "constre"   const c = "s"; var zz int = undefinedName                   *)
(***************************************************************************)
EXTENDS Naturals, Sequences, FiniteSets, TLC, Json

CONSTANTS MaxSteps, FailKinds,
          FailedCompileSticks,  \* FALSE per the property; TRUE: broken variant (the valid
                                \* prefix of a failing input rebinds its name)
          EmitOn, EmitAt

VARIABLES env,    \* name -> binding record, or absent
          tver,   \* number of times T was (re)declared
          hist

vars == <<env, tver, hist>>

Names == {"v", "w", "c", "f", "T"}
None == [k |-> "none"]

Init == env = [n \in Names |-> None] /\ tver = 0 /\ hist = <<>>

\* what every name evaluates to now (the observation after each step)
Obs(e) == [n \in Names |-> e[n]]

Step(op, e1, tv1) ==
    /\ env' = e1 /\ tver' = tv1
    /\ hist' = Append(hist, op @@ [after |-> Obs(e1)])

\* var n T = val   (T in int, string, or the CURRENT version of type T)
DeclVar(n, typ, k) ==
    /\ n \in {"v", "w"}
    /\ typ = "T" => env["T"].k = "type"
    /\ Step([op |-> "var", n |-> n, typ |-> typ, x |-> k],
            [env EXCEPT ![n] = [k |-> "var", typ |-> typ, x |-> k,
                                 tv |-> IF typ = "T" THEN env["T"].variant ELSE 0,
                                 ver |-> IF typ = "T" THEN tver ELSE 0]], tver)

DeclConst(k) == Step([op |-> "const", n |-> "c", x |-> k], [env EXCEPT !["c"] = [k |-> "const", x |-> k]], tver)
DeclFunc(k) == Step([op |-> "func", n |-> "f", x |-> k], [env EXCEPT !["f"] = [k |-> "func", x |-> k]], tver)
DeclType(variant) ==
    Step([op |-> "type", n |-> "T", variant |-> variant],
         [env EXCEPT !["T"] = [k |-> "type", variant |-> variant]], tver + 1)

\* an input that does not compile: the environment is unchanged (and none of its code runs)
Fail(kind, n) ==
    /\ kind \in FailKinds
    /\ (kind \in {"funcbody", "funcsig", "funcsig2"} => n = "f") /\ (kind = "typedecl" => n = "T")
    /\ (kind = "constre" => n = "c")
    /\ (kind \in {"parse", "type", "second"} => n \in {"v", "w"})
    /\ LET e1 == IF FailedCompileSticks /\ kind = "second"
                 THEN [env EXCEPT ![n] = [k |-> "var", typ |-> "string", x |-> 0, tv |-> 0, ver |-> 0]]
                 ELSE env
       IN Step([op |-> "fail", kind |-> kind, n |-> n], e1, tver)

Next == /\ Len(hist) < MaxSteps
        /\ \/ \E n \in {"v", "w"}, typ \in {"int", "string", "T"} : DeclVar(n, typ, Len(hist) + 1)
           \/ DeclConst(Len(hist) + 1) \/ DeclFunc(Len(hist) + 1)
           \/ \E variant \in 1..3 : DeclType(variant)
           \/ \E kind \in FailKinds, n \in Names : Fail(kind, n)

Spec == Init /\ [][Next]_vars

----------------------------------------------------------------------------
\* a failing input is a stutter on the environment
FailStutters == \A i \in 1..Len(hist) :
                   hist[i].op = "fail" =>
                      hist[i].after = (IF i = 1 THEN Obs([n \in Names |-> None]) ELSE hist[i - 1].after)
\* a variable keeps the type version it was declared with
VersionKept == \A n \in {"v", "w"} :
                 (env[n].k = "var" /\ env[n].typ = "T") => env[n].ver <= tver /\ env[n].tv \in 1..3

Fails == Cardinality({i \in 1..Len(hist) : hist[i].op = "fail"})
Emit == IF EmitOn /\ Len(hist) = EmitAt
        THEN PrintT(ToJson([hist |-> hist]))
        ELSE TRUE
=============================================================================

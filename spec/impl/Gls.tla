-------------------------------- MODULE Gls --------------------------------
(***************************************************************************)
(* Goroutine identity and the per-goroutine runtime record ("run") of the  *)
(* fast interpreter (gls/api_gc.go GoID; fast/compile.go glsGet, glsStore, *)
(* glsDel, Run.getRun4Goid, newEnv4Func; fast/statement.go Comp.Go).       *)
(*                                                                          *)
(* reg      IrGlobals.gls : identity -> run                                 *)
(* lock     the spin lock around reg; acquire and release are separate     *)
(*          steps, reg is only touched while holding it                    *)
(* runs     run -> owner identity (Run.goid)                               *)
(* A goroutine is                                                          *)
(*   "main"    the creator of the interpreter, owner of run 1              *)
(*   "child"   started by an interpreted go statement: creates its own run,*)
(*             registers it, calls, unregisters on exit                    *)
(*   "foreign" any other goroutine calling an interpreted closure          *)
(*             (callback from compiled code): never registers on its own,  *)
(*             never unregisters                                           *)
(* Every frame allocation (newEnv4Func) starts from the run of the         *)
(* closure's defining frame (`outer.Run`, here: the creator's run) and,    *)
(* if its owner is not the current identity, looks the right one up in the *)
(* registry, creating and registering it on a miss.                        *)
(* Identities are reused after a goroutine exits.                          *)
(***************************************************************************)
EXTENDS Naturals, Sequences, FiniteSets, TLC

CONSTANTS Gor,        \* goroutines other than main, e.g. {"a","b","c"}
          Ids,        \* identities available to them (main has identity 0)
          MaxAlloc,   \* frame allocations per goroutine
          MaxRuns,    \* bound on run records
          CheckGoid,  \* TRUE in the code: newEnv4Func compares run.goid with GoID()
          ChildOwnRun \* TRUE in the code: the go statement gives the child a fresh run

VARIABLES reg, lock, runs, gor, alloc, users, bad

vars == <<reg, lock, runs, gor, alloc, users, bad>>

NoRun == 0
Main == "main"

Live(g) == g = Main \/ gor[g].phase \notin {"idle", "dead"}
LiveIds == {0} \cup {gor[g].id : g \in {h \in Gor : Live(h)}}

Init == /\ reg = [i \in Ids \cup {0} |-> IF i = 0 THEN 1 ELSE NoRun]
        /\ lock = ""
        /\ runs = <<0>>                      \* run 1 is owned by identity 0 (main)
        /\ gor = [g \in Gor |-> [kind |-> "none", id |-> 0, phase |-> "idle", run |-> NoRun, cur |-> NoRun, n |-> 0, src |-> NoRun]]
        /\ alloc = <<>>
        /\ users = [r \in 1..MaxRuns |-> {}]
        /\ bad = FALSE

NewRun(owner) == Append(runs, owner)

\* ------------------------------------------------------------------ spawning
\* a go statement executed by live goroutine p (main or another one): the child's function
\* value and arguments were evaluated by p with p's run; the child starts with that run as
\* `outer.Run` of the closure it will call
SpawnChild(p, g) ==
    /\ IF p = Main THEN TRUE ELSE (Live(p) /\ gor[p].phase = "calling")
    /\ gor[g].phase = "idle"
    /\ \E i \in Ids \ LiveIds :
         gor' = [gor EXCEPT ![g] = [kind |-> "child", id |-> i, phase |-> "new", run |-> NoRun, cur |-> NoRun, n |-> 0,
                                    src |-> IF p = Main THEN 1 ELSE gor[p].cur]]
    /\ UNCHANGED <<reg, lock, runs, alloc, users, bad>>

\* a goroutine created by compiled code calls an interpreted closure created by main
SpawnForeign(g) ==
    /\ gor[g].phase = "idle"
    /\ \E i \in Ids \ LiveIds :
         gor' = [gor EXCEPT ![g] = [kind |-> "foreign", id |-> i, phase |-> "calling", run |-> NoRun, cur |-> NoRun, n |-> 0, src |-> 1]]
    /\ UNCHANGED <<reg, lock, runs, alloc, users, bad>>

\* ------------------------------------------------------------------ child prologue
ChildNew(g) ==            \* tg2 := tg.new(gls.GoID()); env2.Run = tg2
    /\ gor[g].phase = "new" /\ Len(runs) < MaxRuns
    /\ IF ChildOwnRun
       THEN /\ runs' = NewRun(gor[g].id)
            /\ gor' = [gor EXCEPT ![g].run = Len(runs) + 1, ![g].src = Len(runs) + 1, ![g].phase = "store-lock"]
       ELSE /\ gor' = [gor EXCEPT ![g].run = gor[g].src, ![g].phase = "calling"]   \* broken: shares the parent's run
            /\ UNCHANGED runs
    /\ UNCHANGED <<reg, lock, alloc, users, bad>>

Acquire(g, from, to) ==
    /\ gor[g].phase = from /\ lock = ""
    /\ lock' = g /\ gor' = [gor EXCEPT ![g].phase = to]
    /\ UNCHANGED <<reg, runs, alloc, users, bad>>

Release(g, from, to) ==
    /\ gor[g].phase = from /\ lock = g
    /\ lock' = "" /\ gor' = [gor EXCEPT ![g].phase = to]
    /\ UNCHANGED <<reg, runs, alloc, users, bad>>

ChildStoreWrite(g) ==     \* glsStore
    /\ gor[g].phase = "store-write" /\ lock = g
    /\ reg' = [reg EXCEPT ![gor[g].id] = gor[g].run]
    /\ gor' = [gor EXCEPT ![g].phase = "store-unlock"]
    /\ UNCHANGED <<lock, runs, alloc, users, bad>>

\* ------------------------------------------------------------------ frame allocation
\* newEnv4Func: run := outer.Run; if run.goid != goid { run = run.getRun4Goid(goid) }
AllocStart(g) ==
    /\ gor[g].phase = "calling" /\ gor[g].n < MaxAlloc
    /\ LET r == gor[g].src IN
       IF ~CheckGoid \/ runs[r] = gor[g].id
       THEN /\ gor' = [gor EXCEPT ![g].cur = r, ![g].phase = "use"]
       ELSE /\ gor' = [gor EXCEPT ![g].phase = "get-lock"]
    /\ UNCHANGED <<reg, lock, runs, alloc, users, bad>>

GetRead(g) ==             \* glsGet
    /\ gor[g].phase = "get-read" /\ lock = g
    /\ gor' = [gor EXCEPT ![g].cur = reg[gor[g].id], ![g].phase = "get-unlock"]
    /\ UNCHANGED <<reg, lock, runs, alloc, users, bad>>

GetDone(g) ==             \* getRun4Goid: miss -> new run, glsStore
    /\ gor[g].phase = "get-done"
    /\ IF gor[g].cur # NoRun
       THEN /\ gor' = [gor EXCEPT ![g].phase = "use"] /\ UNCHANGED runs
       ELSE /\ Len(runs) < MaxRuns
            /\ runs' = NewRun(gor[g].id)
            /\ gor' = [gor EXCEPT ![g].cur = Len(runs) + 1, ![g].phase = "miss-lock"]
    /\ UNCHANGED <<reg, lock, alloc, users, bad>>

MissWrite(g) ==
    /\ gor[g].phase = "miss-write" /\ lock = g
    /\ reg' = [reg EXCEPT ![gor[g].id] = gor[g].cur]
    /\ gor' = [gor EXCEPT ![g].phase = "miss-unlock"]
    /\ UNCHANGED <<lock, runs, alloc, users, bad>>

\* the frame is taken from (and later returned to) the pool of run `cur`
Use(g) ==
    /\ gor[g].phase = "use"
    /\ LET r == gor[g].cur
           others == users[r] \ {g}
       IN /\ alloc' = Append(alloc, [g |-> g, id |-> gor[g].id, run |-> r, owner |-> runs[r]])
          /\ users' = [users EXCEPT ![r] = @ \cup {g}]
          /\ bad' = (bad \/ runs[r] # gor[g].id \/ \E h \in others : Live(h))
    /\ gor' = [gor EXCEPT ![g].n = @ + 1, ![g].phase = "calling"]
    /\ UNCHANGED <<reg, lock, runs>>

\* ------------------------------------------------------------------ exit
ChildExitStart(g) ==
    /\ gor[g].kind = "child" /\ gor[g].phase = "calling"
    /\ gor' = [gor EXCEPT ![g].phase = IF ChildOwnRun THEN "del-lock" ELSE "exit"]
    /\ UNCHANGED <<reg, lock, runs, alloc, users, bad>>

ChildDelWrite(g) ==       \* deferred glsDel
    /\ gor[g].phase = "del-write" /\ lock = g
    /\ reg' = [reg EXCEPT ![gor[g].id] = NoRun]
    /\ gor' = [gor EXCEPT ![g].phase = "del-unlock"]
    /\ UNCHANGED <<lock, runs, alloc, users, bad>>

Exit(g) ==
    /\ \/ gor[g].phase = "exit"
       \/ gor[g].kind = "foreign" /\ gor[g].phase = "calling"
    /\ gor' = [gor EXCEPT ![g].phase = "idle", ![g].kind = "none"]
    /\ users' = [r \in 1..MaxRuns |-> users[r] \ {g}]
    /\ UNCHANGED <<reg, lock, runs, alloc, bad>>

Next == \E g \in Gor :
          \/ \E p \in Gor \cup {Main} : p # g /\ SpawnChild(p, g)
          \/ SpawnForeign(g)
          \/ ChildNew(g)
          \/ Acquire(g, "store-lock", "store-write") \/ ChildStoreWrite(g) \/ Release(g, "store-unlock", "calling")
          \/ AllocStart(g)
          \/ Acquire(g, "get-lock", "get-read") \/ GetRead(g) \/ Release(g, "get-unlock", "get-done") \/ GetDone(g)
          \/ Acquire(g, "miss-lock", "miss-write") \/ MissWrite(g) \/ Release(g, "miss-unlock", "use")
          \/ Use(g)
          \/ ChildExitStart(g)
          \/ Acquire(g, "del-lock", "del-write") \/ ChildDelWrite(g) \/ Release(g, "del-unlock", "exit")
          \/ Exit(g)

Spec == Init /\ [][Next]_vars

----------------------------------------------------------------------------
\* the record used at a frame allocation is owned by the allocating goroutine's identity and is
\* not in use by any other live goroutine
Ownership == ~bad
\* no two live goroutines have the same identity
UniqueIds == \A g, h \in Gor : (g # h /\ Live(g) /\ Live(h)) => gor[g].id # gor[h].id
\* a registered record is owned by the identity it is registered under
RegOwner == \A i \in DOMAIN reg : reg[i] # NoRun => runs[reg[i]] = i
\* only the lock holder is inside a critical section
LockOK == \A g \in Gor : gor[g].phase \in {"store-write", "store-unlock", "get-read", "get-unlock", "miss-write", "miss-unlock", "del-write", "del-unlock"} => lock = g

AllocView == <<reg, lock, runs, gor, users, bad>>
=============================================================================

----------------------------- MODULE Positions -----------------------------
(***************************************************************************)
(* Source positions reported by gomacro (property C27).                    *)
(*                                                                          *)
(* Part 1 - chunks.  A source text is a sequence of CHUNKS as the reader    *)
(* delivers them; a chunk shape is                                          *)
(*   lead : 0..2  blank / comment-only lines before the chunk (the reader   *)
(*                returns them as chunks of their own, nothing is parsed)  *)
(*   pre  : 0 nothing, 1 a one-line general comment before the first token *)
(*          on the same line, 2 / 3 a general comment that starts one / two *)
(*          lines above and ends on the first code line ("/* a\n b */ x")  *)
(*   body : 1..3  code lines (one statement continued after an operator)   *)
(*   ind  : spaces before the first token of the first code line           *)
(* One token of the last chunk is the OFFENDING token (kind, code line l,  *)
(* optionally preceded by a comment holding a two-byte character).         *)
(*                                                                          *)
(* Go-level meaning (what the property demands): the reported position is   *)
(* the position of the token in the ORIGINAL input: TrueLine, TrueCol       *)
(* (1-based, column counted in bytes as go/token documents).               *)
(*                                                                          *)
(* Implementation-level mechanism, one action per step of the code:        *)
(*   fast/repl.go  Interp.Read        lineBase += lines before first token *)
(*                 ParseEvalPrint     parse the chunk at line offset        *)
(*                                    lineBase (Globals.ParseBytes)         *)
(*                 afterEval          lineBase += lines of the chunk        *)
(*   fast/interpreter.go EvalReader   lineBase := 0; the first chunk is    *)
(*                 read with all leading comments, CUT at its first token,  *)
(*                 lineBase += lines of the cut part                        *)
(*   Interp.Eval(string)              the whole text is one parse at        *)
(*                                    lineBase (0 on a fresh interpreter)   *)
(* ImplLine / ImplCol are what this mechanism reports.  (M) states exactly  *)
(* when the mechanism differs from the truth (two named predicates) and by  *)
(* how much, and that it is exact everywhere else.                         *)
(*                                                                          *)
(* Part 2 - file sets (go/etoken/fileset.go): files (base, size, table of  *)
(* line starts, starting-line offset); Pos -> (line, column).              *)
(***************************************************************************)
EXTENDS Naturals, Integers, Sequences, FiniteSets, TLC, Json

CONSTANTS Entries,        \* subset of {"eval", "file", "repl"}
          Leads, Pres, Bodies, Indents,   \* chunk shape alphabets
          MaxChunks,
          AfterEvalCounts, \* TRUE: the code. FALSE: broken variant - afterEval does not advance the counter
          ReadCountsLead,  \* TRUE: the code (Interp.Read advances by the lines before the first token
                           \*       and the whole chunk is parsed). FALSE: the repaired reader
          CutAtToken,      \* TRUE: the code (EvalReader cuts the first chunk at its first token).
                           \*       FALSE: repaired (cuts at the beginning of that token's line)
          FsSizes, FsGaps, FsLineOffs, MaxFiles,
          EmitOn, EmitAt

VARIABLES entry,     \* which entry point evaluates the text
          chunks,    \* sequence of chunk shapes
          lineBase,  \* implementation: Globals.Line before the last chunk was read
          consumed,  \* truth: number of input lines before the last chunk
          fs         \* part 2: sequence of files

vars == <<entry, chunks, lineBase, consumed, fs>>

---------------------------------------------------------------------------
(* chunk geometry *)

PreLines(p) == IF p = 2 THEN 1 ELSE IF p = 3 THEN 2 ELSE 0
\* width of what precedes the indentation on the first code line:
\*   pre 1: "/* c */ " ; pre 2: " b */ " ; pre 3: " c */ "
PreTail(p) == IF p = 1 THEN 8 ELSE IF p >= 2 THEN 6 ELSE 0
ChunkLines(ch) == ch.lead + PreLines(ch.pre) + ch.body
FirstCol(ch) == PreTail(ch.pre) + ch.ind + 1
Wide(w) == IF w = 1 THEN 7 ELSE 0      \* "/*é*/ " is 7 bytes (6 characters)

Kinds == {"undef", "syntax", "mismatch", "break", "bp"}
\* which code lines may carry the offending token
LinesOf(k, ch) == IF k = "mismatch" THEN {1} ELSE IF k = "break" THEN {ch.body}
                  ELSE IF k = "bp" THEN (IF ch.body >= 2 THEN {2} ELSE {}) ELSE 1..ch.body

\* column (bytes, 1-based) of the offending token; statements are rendered as
\*   undef    l=1: v1 := <T> ...      l>1: ____<T> ...        (4 spaces)
\*   syntax   the same with T = ")"
\*   mismatch l=1: var w1 int; <w1 = "mm"> ...
\*   break    body=1: v1 := 1; <break>     body>1 (last line): ____2; <break>
\*   bp       (breakpoint, observed by a debugger)  func f1() { / ____<"break"> / }; f1()
TrueCol(k, l, w, ch) ==
    LET start == IF l = 1 THEN FirstCol(ch) ELSE 5 IN
    IF k \in {"undef", "syntax"} THEN (IF l = 1 THEN start + 6 ELSE start) + Wide(w)
    ELSE IF k = "mismatch" THEN start + 12 + Wide(w)
    ELSE IF k = "bp" THEN 5 + Wide(w)
    ELSE (IF l = 1 THEN start + 9 ELSE start + 3) + Wide(w)

TrueLine(l, ch) == consumed + ch.lead + PreLines(ch.pre) + l

---------------------------------------------------------------------------
(* implementation-level mechanism *)

IsFirst == Len(chunks) = 1
Last == chunks[Len(chunks)]

\* lines Interp.Read adds before the chunk is parsed (the chunk text still holds them)
ReadAdvance(ch) == IF ReadCountsLead THEN PreLines(ch.pre) ELSE 0

ImplLine(l, ch) ==
    IF entry = "eval" THEN consumed + ch.lead + PreLines(ch.pre) + l
    ELSE IF entry = "file" /\ IsFirst THEN
        \* the cut part is counted, the rest is parsed at that offset
        ch.lead + PreLines(ch.pre) + l
    ELSE lineBase + ch.lead + ReadAdvance(ch) + PreLines(ch.pre) + l

ImplCol(k, l, w, ch) ==
    IF entry = "file" /\ IsFirst /\ l = 1 /\ CutAtToken
    THEN TrueCol(k, l, w, ch) - (FirstCol(ch) - 1)
    ELSE TrueCol(k, l, w, ch)

\* counter after the chunk was evaluated
ImplAfter(ch, first) ==
    IF entry = "eval" THEN 0
    ELSE IF entry = "file" /\ first THEN ch.lead + PreLines(ch.pre) + (IF AfterEvalCounts THEN ch.body ELSE 0)
    ELSE lineBase + ch.lead + ReadAdvance(ch) + (IF AfterEvalCounts THEN PreLines(ch.pre) + ch.body ELSE 0)

Shapes == [lead : Leads, pre : Pres, body : Bodies, ind : Indents]

Init == /\ entry \in Entries
        /\ chunks = <<>> /\ lineBase = 0 /\ consumed = 0 /\ fs = <<>>

\* ReadChunk + AfterEval of the previous chunk, then the next chunk arrives
AddChunk(ch) ==
    /\ Len(chunks) < MaxChunks
    /\ chunks' = Append(chunks, ch)
    /\ IF chunks = <<>> THEN lineBase' = 0 /\ consumed' = 0
       ELSE /\ lineBase' = ImplAfter(Last, IsFirst)
            /\ consumed' = consumed + ChunkLines(Last)
    /\ UNCHANGED <<entry, fs>>

Next == \E ch \in Shapes : AddChunk(ch)

\* everything the invariants and the next-state relation read (used as VIEW by the (M) runs)
PosView == <<entry, Len(chunks), lineBase, consumed, IF chunks = <<>> THEN <<>> ELSE <<Last>>, fs>>
Spec == Init /\ [][Next]_vars

---------------------------------------------------------------------------
(* (M) the mechanism against the truth *)

\* named predicates of the two known disagreements
\* (a) lines of a comment that ends on the first code line are counted by Interp.Read and again
\*     by the parser; every later chunk inherits the surplus
Surplus == IF entry = "eval" THEN 0 ELSE lineBase - consumed
SigCommentLinesCountedTwice(ch) ==
    entry \in {"file", "repl"} /\ ~(entry = "file" /\ IsFirst) /\ (Surplus + ReadAdvance(ch)) > 0
\* (b) EvalReader cuts the first chunk at its first token: columns on that line lose the cut part
SigFirstChunkCutAtToken(l, ch) ==
    entry = "file" /\ IsFirst /\ l = 1 /\ FirstCol(ch) > 1 /\ CutAtToken

Reports(ch) == {<<k, l, w>> \in Kinds \X (1..3) \X {0, 1} : l \in LinesOf(k, ch)}

ImplExactModuloKnown ==
    chunks # <<>> =>
      \A r \in Reports(Last) :
        LET k == r[1]  l == r[2]  w == r[3] IN
        /\ Surplus >= 0
        /\ ImplLine(l, Last) = TrueLine(l, Last) +
              (IF SigCommentLinesCountedTwice(Last) THEN Surplus + ReadAdvance(Last) ELSE 0)
        /\ ImplCol(k, l, w, Last) = TrueCol(k, l, w, Last) -
              (IF SigFirstChunkCutAtToken(l, Last) THEN FirstCol(Last) - 1 ELSE 0)
        /\ TrueCol(k, l, w, Last) >= 1 /\ ImplCol(k, l, w, Last) >= 1

\* without the two known mechanisms the counter is exact: nothing else is wrong
ExactWhenRepaired == (~ReadCountsLead /\ ~CutAtToken) =>
    (chunks # <<>> => \A r \in Reports(Last) :
        /\ ImplLine(r[2], Last) = TrueLine(r[2], Last)
        /\ ImplCol(r[1], r[2], r[3], Last) = TrueCol(r[1], r[2], r[3], Last))

\* the surplus only comes from comment lines inside chunks read by Interp.Read
SurplusOrigin ==
    Surplus = (IF entry = "eval" \/ ~ReadCountsLead THEN 0
               ELSE LET RECURSIVE Sum(_)
                        Sum(i) == IF i >= Len(chunks) THEN 0
                                  ELSE (IF entry = "file" /\ i = 1 THEN 0 ELSE PreLines(chunks[i].pre)) + Sum(i + 1)
                    IN Sum(1))

---------------------------------------------------------------------------
(* Part 2: file sets *)

\* a file: base, size, starts (strictly increasing offsets of line starts, starts[1] = 0), lineoff
RECURSIVE LineOf(_, _, _)
LineOf(starts, off, i) ==      \* largest i with starts[i] <= off
    IF i < Len(starts) /\ starts[i + 1] <= off THEN LineOf(starts, off, i + 1) ELSE i

FsPos(f, off) == LET i == LineOf(f.starts, off, 1) IN
                 [line |-> f.lineoff + i, col |-> off - f.starts[i] + 1, srcline |-> i]

FsEnd == IF fs = <<>> THEN 0 ELSE fs[Len(fs)].base + fs[Len(fs)].size

RECURSIVE StartsOf(_, _)
\* all strictly increasing sequences starting with 0 over offsets < size
StartsOf(size, from) ==
    {<<>>} \cup UNION {{<<o>> \o s : s \in StartsOf(size, o + 1)} : o \in from..(size - 1)}

AddFile ==
    /\ Len(fs) < MaxFiles
    /\ \E size \in FsSizes, gap \in FsGaps, lo \in FsLineOffs :
         \E tl \in StartsOf(size, 1) :
           fs' = Append(fs, [base |-> FsEnd + 1 + gap, size |-> size, starts |-> <<0>> \o tl,
                             lineoff |-> lo, gap |-> gap])
    /\ UNCHANGED <<entry, chunks, lineBase, consumed>>

SpecFS == Init /\ [][AddFile]_vars

FsOK == \A i \in 1..Len(fs) :
          LET f == fs[i] IN
          /\ f.base >= 1 /\ (i > 1 => f.base > fs[i - 1].base + fs[i - 1].size)
          /\ \A off \in 0..f.size :
               LET p == FsPos(f, off) IN
               /\ p.col >= 1 /\ p.line >= f.lineoff + 1 /\ p.line <= f.lineoff + Len(f.starts)
               \* the start of every line is column 1 of that line, the offset before it is on the previous line
               /\ (off \in {f.starts[j] : j \in 1..Len(f.starts)} <=> p.col = 1)
               /\ (off > 0 => LET q == FsPos(f, off - 1) IN
                              IF p.col = 1 THEN q.line = p.line - 1 ELSE q.line = p.line /\ q.col = p.col - 1)

---------------------------------------------------------------------------
(* emission (R) *)

RepSeq(ch) == LET S == Reports(ch)
                  RECURSIVE ToSeq(_)
                  ToSeq(T) == IF T = {} THEN <<>>
                              ELSE LET x == CHOOSE y \in T : TRUE IN <<x>> \o ToSeq(T \ {x})
              IN ToSeq(S)

Emit == IF EmitOn /\ chunks # <<>> /\ (EmitAt = 0 \/ Len(chunks) = EmitAt)
        THEN LET rs == RepSeq(Last) IN
             PrintT(ToJson([entry |-> entry, chunks |-> chunks,
                 reports |-> [i \in 1..Len(rs) |->
                    LET k == rs[i][1]  l == rs[i][2]  w == rs[i][3] IN
                    [k |-> k, l |-> l, w |-> w,
                     line |-> TrueLine(l, Last), col |-> TrueCol(k, l, w, Last),
                     iline |-> ImplLine(l, Last), icol |-> ImplCol(k, l, w, Last),
                     dup |-> SigCommentLinesCountedTwice(Last),
                     cut |-> SigFirstChunkCutAtToken(l, Last)]]]))
        ELSE TRUE

EmitFS == IF EmitOn /\ fs # <<>> /\ (EmitAt = 0 \/ Len(fs) = EmitAt)
          THEN PrintT(ToJson([files |-> [i \in 1..Len(fs) |->
                  [base |-> fs[i].base, size |-> fs[i].size, starts |-> fs[i].starts,
                   lineoff |-> fs[i].lineoff, gap |-> fs[i].gap,
                   pos |-> [o \in 1..(fs[i].size + 1) |-> FsPos(fs[i], o - 1)]]]]))
          ELSE TRUE
=============================================================================

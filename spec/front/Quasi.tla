------------------------------- MODULE Quasi -------------------------------
(***************************************************************************)
(* C21: ~quote and ~quasiquote build the documented syntax trees           *)
(* (fast/quasiquote.go, classic/quasiquote.go, base/quasiquote.go,         *)
(* go/parser/quote.go).                                                    *)
(*                                                                         *)
(*   ~quote{X}       is the tree of X verbatim.                            *)
(*   ~quasiquote{X}  is the tree of X in which, at quasiquote depth 1      *)
(*                   (quasiquote +1, unquote / unquote_splice -1),         *)
(*                   ~unquote{E} is replaced by the tree E evaluates to    *)
(*                   and ~unquote_splice{E}, an element of a list, by the  *)
(*                   elements of the list E evaluates to.                  *)
(* Nested quasiquotes: a chain  ~unquote{~unquote{... E}}  of k links met  *)
(* at depth d is kept when k < d (its innermost body is evaluated at depth *)
(* d - k) and evaluated when k = d: "the right-most unquote pairs with the *)
(* left-most comma" (base/quasiquote.go), and a splice at the end of the   *)
(* chain duplicates the k - 1 outer links around every spliced element:    *)
(*   x := quote{7; 8}                                                      *)
(*   quasiquote{quasiquote{1; unquote{2}; unquote{unquote_splice{x}}}}     *)
(*   = quasiquote{1; unquote{2}; unquote{7}; unquote{8}}                   *)
(* A body of exactly one form stands for that form, a body of several for  *)
(* their block (TopForm), as for ~quote.                                   *)
(***************************************************************************)
EXTENDS Forms

CONSTANTS Roots,      \* kinds of the generated root: {"q"}, {"qq"} or both
          Broken,     \* deviation set switched on in the property itself ({} = the property)
          EmitOn

vars == <<tree, n, calls>>

Err == Node("error", "", <<>>)
Int(s) == Node("int", s, <<>>)

(* The environment the unquoted expressions are evaluated in: name |-> tree or list.
   A list value is a block (the value of ~quote{7; 8}) or a slice of nodes ("list").     *)
Env(name) ==
    CASE name = "x"  -> Node("bin", "+", <<Id("u"), Int("1")>>)
      [] name = "y"  -> Node("paren", "", <<Node("bin", "+", <<Id("y1"), Id("y2")>>)>>)
      [] name = "l"  -> Block(<<Int("7"), Int("8")>>)
      [] name = "l1" -> Block(<<Int("9")>>)
      [] name = "l0" -> Block(<<>>)
      [] name = "ls" -> List(<<Int("5"), Id("s6")>>)
EnvNames == {"x", "y", "l", "l1", "l0", "ls"}

---------------------------------------------------------------------------
(* unquote chains *)

IsUnq(t) == t.k \in {"uq", "uqs"}
HasNext(t) == Len(t.c[1].c) = 1 /\ IsUnq(t.c[1].c[1])
RECURSIVE ChainOps(_)
ChainOps(t) == <<t.k>> \o (IF HasNext(t) THEN ChainOps(t.c[1].c[1]) ELSE <<>>)
RECURSIVE ChainBody(_)       \* the body block of the innermost link
ChainBody(t) == IF HasNext(t) THEN ChainBody(t.c[1].c[1]) ELSE t.c[1]

RECURSIVE WrapSeq(_, _)      \* ops[1]{ ops[2]{ ... elems } }
WrapSeq(ops, elems) == IF Len(ops) = 1 THEN Node(ops[1], "", <<Block(elems)>>)
                       ELSE Node(ops[1], "", <<Block(<<WrapSeq(Tail(ops), elems)>>)>>)
Wrap(ops, v) == IF ops = <<>> THEN v ELSE WrapSeq(ops, <<v>>)

\* the value of the innermost body: it names an environment entry
Val(body) == Env(body.c[1].a)

---------------------------------------------------------------------------
(* the meaning, parameterised by the deviation set V *)

RECURSIVE EvalElem(_, _, _), EvalNode(_, _, _), EvalList(_, _, _), EvalBody(_, _, _)

\* an element of a list: the sequence of elements it becomes
EvalElem(e, d, V) ==
    IF IsUnq(e)
    THEN LET ops == ChainOps(e)
             k   == Len(ops)
             B   == ChainBody(e)
             out == SubSeq(ops, 1, k - 1)
         IN IF k > d THEN <<Err>>
            ELSE IF k = d
            THEN (IF ops[k] = "uqs" /\ "splice1" \notin V
                  THEN (IF "naive" \in V /\ k > 1
                        THEN <<WrapSeq(out, Val(B).c)>>          \* all elements inside ONE stack
                        ELSE [i \in 1..Len(Val(B).c) |-> Wrap(out, Val(B).c[i])])
                  ELSE <<Wrap(out, Val(B))>>)
            ELSE <<WrapSeq(ops, EvalBody(B.c, d - k, V))>>
    ELSE <<EvalNode(e, d, V)>>

EvalList(s, d, V) == IF s = <<>> THEN <<>> ELSE EvalElem(s[1], d, V) \o EvalList(Tail(s), d, V)

\* the body of a nested quote / quasiquote / kept unquote.
\* deviation "sliceinbody": a body that is ONE splice of a slice value is not treated as a list
EvalBody(s, d, V) ==
    IF /\ "sliceinbody" \in V /\ Len(s) = 1 /\ IsUnq(s[1])
       /\ Len(ChainOps(s[1])) = d /\ ChainOps(s[1])[d] = "uqs" /\ Val(ChainBody(s[1])).k = "list"
    THEN <<Err>>
    ELSE EvalList(s, d, V)

\* a node in a slot
EvalNode(t, d, V) ==
    IF t.c = <<>> THEN t
    ELSE IF IsUnq(t) THEN EvalElem(t, d, V)[1]
    ELSE IF t.k = "qq" THEN Node("qq", "", <<Block(EvalBody(t.c[1].c, d + 1, V))>>)
    ELSE IF t.k = "q" THEN Node("q", "", <<Block(EvalBody(t.c[1].c, d, V))>>)
    ELSE IF t.k \in ListKinds
         THEN LET r == EvalList(t.c, d, V) IN
              \* deviation "emptylist": an expression list emptied by splicing cannot be built
              IF "emptylist" \in V /\ t.k = "list" /\ r = <<>> THEN Err ELSE Node(t.k, t.a, r)
    ELSE Node(t.k, t.a, [i \in 1..Len(t.c) |-> EvalNode(t.c[i], d, V)])

RECURSIVE ErrIn(_)
ErrIn(t) == t.k = "error" \/ \E i \in 1..Len(t.c) : ErrIn(t.c[i])

\* a body of one form stands for the form itself
TopForm(s) == IF s = <<>> THEN Empty ELSE IF Len(s) = 1 THEN s[1] ELSE Block(s)

\* value of ~quote{body} / ~quasiquote{body}
EvalQuote(t) == TopForm(t.c[1].c)
EvalQuasi(t, V) ==
    LET body == t.c[1].c
        r    == EvalList(body, 1, V)
    IN IF Len(body) = 1 /\ IsUnq(body[1]) /\ ChainOps(body[1])[Len(ChainOps(body[1]))] = "uqs" /\ "topsplice" \in V
       THEN Block(r)                                  \* deviation: the block is returned as it is
       ELSE IF Len(body) <= 1 THEN TopForm(r) ELSE Block(r)
Eval(t, V) == IF t.k = "q" THEN EvalQuote(t)
              ELSE LET r == EvalQuasi(t, V) IN IF ErrIn(r) THEN Err ELSE r

---------------------------------------------------------------------------
(* behaviours *)

Init == \E r \in Roots : GenInit(Node(r, "", <<Block(<<Hole("stmts")>>)>>), <<>>)
Next == GenNext
Spec == Init /\ [][Next]_vars

---------------------------------------------------------------------------
(* (M) laws *)

P == Broken

RECURSIVE HasUnq(_)
HasUnq(t) == IsUnq(t) \/ \E i \in 1..Len(t.c) : HasUnq(t.c[i])

\* occurrences of environment names with the quasiquote depth they stand at, left to right
RECURSIVE Occ(_, _)
Occ(t, d) == IF t.k = "id" /\ t.a \in EnvNames THEN <<[name |-> t.a, d |-> d]>>
             ELSE LET d2 == IF t.k = "qq" THEN d + 1 ELSE IF IsUnq(t) THEN d - 1 ELSE d
                      RECURSIVE Cat(_)
                      Cat(i) == IF i > Len(t.c) THEN <<>> ELSE Occ(t.c[i], d2) \o Cat(i + 1)
                  IN Cat(1)

\* 1. an unquote-free template evaluates to itself (quasiquote = quote)
IdentityLaw == (Complete /\ ~HasUnq(Form.c[1])) => Eval(Form, P) = EvalQuote(Form)

\* 2. depth bookkeeping: exactly the occurrences standing at depth 0 are evaluated; every
\*    other one is still there, in order, one level closer to evaluation
DepthLaw ==
    (Complete /\ Form.k = "qq") =>
        LET before == SelectSeq(Occ(Form, 0), LAMBDA o : o.d > 0)
            after  == Occ(Eval(Form, P), 0)
        IN /\ \A i \in 1..Len(Occ(Form, 0)) : Occ(Form, 0)[i].d >= 0
           /\ after = [i \in 1..Len(before) |-> [name |-> before[i].name, d |-> before[i].d - 1]]

\* 3. splicing: a body  pre ; ~unquote_splice{L} ; post  with unquote-free pre and post is
\*    pre, the elements of L, post
SpliceLaw ==
    (Complete /\ Form.k = "qq") =>
        LET s == Form.c[1].c IN
        \A i \in 1..Len(s) :
           (/\ s[i].k = "uqs" /\ ~HasNext(s[i])
            /\ \A j \in 1..Len(s) : j # i => ~HasUnq(s[j])
            /\ Len(s) > 1)
           => Eval(Form, P) = Block(SubSeq(s, 1, i - 1) \o Val(s[i].c[1]).c \o SubSeq(s, i + 1, Len(s)))

\* 3b. the documented nested case: inside  quasiquote{quasiquote{ pre ; unquote{unquote_splice{L}} ; post }}
\*     every element of L gets its own copy of the outer unquote
NestedSpliceLaw ==
    (Complete /\ Form.k = "qq" /\ Len(Form.c[1].c) = 1 /\ Form.c[1].c[1].k = "qq") =>
        LET s == Form.c[1].c[1].c[1].c IN
        \A i \in 1..Len(s) :
           (/\ IsUnq(s[i]) /\ Len(ChainOps(s[i])) = 2 /\ ChainOps(s[i])[2] = "uqs"
            /\ \A j \in 1..Len(s) : j # i => ~HasUnq(s[j]))
           => LET v  == Val(ChainBody(s[i]))
                  op == ChainOps(s[i])[1]
              IN Eval(Form, P) = Node("qq", "", <<Block(SubSeq(s, 1, i - 1)
                                       \o [j \in 1..Len(v.c) |-> Node(op, "", <<Block(<<v.c[j]>>)>>)]
                                       \o SubSeq(s, i + 1, Len(s)))>>)

\* 4. a splice only ever fills list positions: no list value survives as a single element
RECURSIVE ListInside(_)
ListInside(t) == \E i \in 1..Len(t.c) : (t.c[i].k = "list" /\ t.k \in ListKinds) \/ ListInside(t.c[i])
PositionLaw == Complete => ~ListInside(Eval(Form, P))

\* 5. nothing but the unquotes changes: the leaves of the result are those of the template
\*    with each evaluated name replaced by the leaves of its value
RECURSIVE LeavesEv(_, _)
LeavesEv(t, d) == IF t.k = "id" /\ t.a \in EnvNames /\ d = 0 THEN Leaves(Env(t.a))
                  ELSE IF IsAtom(t) THEN <<t.a>>
                  ELSE LET d2 == IF t.k = "qq" THEN d + 1 ELSE IF IsUnq(t) THEN d - 1 ELSE d
                           RECURSIVE Cat(_)
                           Cat(i) == IF i > Len(t.c) THEN <<>> ELSE LeavesEv(t.c[i], d2) \o Cat(i + 1)
                       IN Cat(1)
LeavesLaw == (Complete /\ Form.k = "qq") => Leaves(Eval(Form, P)) = LeavesEv(Form, 0)

TypeOK == GenOK

---------------------------------------------------------------------------
(* (R) one record per generated form *)

Known == <<{"topsplice"}, {"emptylist"}, {"sliceinbody"}, {"topsplice", "emptylist", "sliceinbody"},
           {"splice1"}, {"naive"}>>
KnownName == <<"topsplice", "emptylist", "sliceinbody", "asbuilt", "splice1", "naive">>

\* deepest quasiquote nesting and the list kinds a splice is an element of (signature data)
RECURSIVE MaxDepth(_, _)
MaxDepth(t, d) == LET d2 == IF t.k = "qq" THEN d + 1 ELSE IF IsUnq(t) THEN d - 1 ELSE d
                      S  == {MaxDepth(t.c[i], d2) : i \in 1..Len(t.c)} \cup {d2}
                  IN CHOOSE m \in S : \A x \in S : x <= m

\* go/parser/quote.go MakeQuote: a quote built around ONE value that is a block takes the block as
\* its body, so  ~quote{ {s1; s2} }  and  ~quote{s1; s2}  are the same form (they have the same
\* value). Results are compared modulo this identification (a block of exactly one statement is
\* different:  ~quote{{s}}  is the block,  ~quote{s}  the statement).
RECURSIVE QNorm(_)
QNorm(t) == LET cs == [i \in 1..Len(t.c) |-> QNorm(t.c[i])] IN
            IF t.k \in QuoteKinds /\ Len(cs[1].c) = 1 /\ cs[1].c[1].k = "block" /\ Len(cs[1].c[1].c) # 1
            THEN Node(t.k, t.a, <<cs[1].c[1]>>)
            ELSE Node(t.k, t.a, cs)

Emit ==
    IF ~EmitOn \/ ~Complete THEN TRUE
    ELSE LET spec == QNorm(Eval(Form, {}))
             devs == SelectSeq([i \in 1..Len(Known) |-> [name |-> KnownName[i], o |-> QNorm(Eval(Form, Known[i]))]],
                               LAMBDA x : x.o # spec)
         IN PrintT(ToJson([t |-> "case", in |-> Form, spec |-> spec, devs |-> devs,
                           depth |-> MaxDepth(Form, 0), unq |-> HasUnq(Form.c[1])]))

EmitMeta ==
    IF EmitOn /\ tree.c[1].c[1].c = <<Hole("stmts")>>
    THEN PrintT(ToJson([t |-> "env", env |-> [x \in EnvNames |-> Env(x)]]))
    ELSE TRUE
=============================================================================

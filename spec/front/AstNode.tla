------------------------------- MODULE AstNode -------------------------------
(***************************************************************************)
(* The uniform syntax-tree wrapper of gomacro (package ast2: ast.go,       *)
(* ast_node.go, ast_slice.go, wrap.go, unwrap.go).                         *)
(*                                                                         *)
(* Part 1  the SIGNATURE TABLE Sig: for every wrapper kind                 *)
(*     cls    the go/ast interface the node implements (expr/stmt/decl/    *)
(*            spec/other) or "slice" for the slice wrappers,               *)
(*     var    FALSE: fixed slots, TRUE: variable length (children are the  *)
(*            elements of one list field / of the slice),                  *)
(*     size   what Size() answers for a fixed kind,                        *)
(*     slots  ordered child slots (go/ast field name, slot type),          *)
(*     elem   element type of a variable-length kind, lfield its field,    *)
(*     pos    position fields New() keeps, sc scalar attributes New()      *)
(*            keeps, drop go/ast fields that are neither (with the reason: *)
(*            documented / resolver / derived / todo / generics / newer).  *)
(*   The table is cross-checked against go/ast by reflection (gate).       *)
(* Part 2  abstract trees [k, a, c] (kind, attributes, children) generated *)
(*   by leftmost derivation (action Gen, bounded by node budget / depth /  *)
(*   list length); an absent child is Nil, a list slot holds a slice tree. *)
(*   Every slot is optional (the wrapper accepts nil everywhere); list     *)
(*   elements and the Max of a 3-index slice are required.                 *)
(* Part 3  the wrapper: Wrap, New, Get(i), Set(i,c), Unwrap as a stack     *)
(*   machine performing the generic rebuild of fast/macroexpand.go         *)
(*   (out = in.New(); grow a slice to Size(); out.Set(i, rebuild(Get(i)))).*)
(*   New() keeps every attribute except SliceExpr.Slice3, which Set(3, c)  *)
(*   derives from the presence of Max (ast_node.go) - hence the generator  *)
(*   produces Slice3 = (Max present), as go/parser guarantees.             *)
(* (M) SizeOK, TreeOK, SlotTypesOK, RebuildIdentity (rebuild = identity,   *)
(*   stack machine = recursive operator); Broken # "none" are the broken   *)
(*   variants TLC must reject.                                             *)
(***************************************************************************)
EXTENDS Naturals, Sequences, FiniteSets, TLC, Json

CONSTANTS MaxNodes,    \* node budget of a generated tree (slice wrappers are free, their elements count)
          MaxDepth,    \* depth bound (root = 1)
          MaxList,     \* maximal length of a list
          Rich,        \* TRUE: full attribute domains (incl. gomacro extension tokens)
          PosChoices,  \* position bases: 0 = all positions zero, b > 0 = field i holds 100*b+i
          Roots,       \* kinds allowed at the root; {} = every kind
          Staged,      \* TRUE (simulation): a hole is filled in three steps - present or absent,
                       \*   kind, attributes - so that random behaviours give trees of mixed
                       \*   shapes; FALSE (BFS): one step per node
          Stepwise,    \* TRUE: the rebuild is performed by the stack machine Wrap/New/Get/Set/Unwrap;
                       \*   FALSE: in one step by the recursive operator Rebuild (fewer states)
          Broken,      \* "none" | "new-drops-attr" | "size-off" | "set-swap"
          EmitOn       \* TRUE: print JSON records

VARIABLES phase,       \* "gen" | "walk" | "done"
          tree,        \* the tree under construction / the generated tree
          holes,       \* gen: pending holes (leftmost first), each with its path from the root
          used,        \* gen: nodes committed so far (present nodes + required pending holes)
          pick,        \* staged generation: "" | "?" (present, kind not chosen) | the chosen kind
          stack,       \* walk: frames [in, out, i]
          result       \* the rebuilt tree

vars == <<phase, tree, holes, used, pick, stack, result>>

---------------------------------------------------------------------------
(* Part 1: the signature table *)

S(n, t) == [name |-> n, ty |-> t]
D(n, w) == [name |-> n, why |-> w]

Fix(cls, size, slots, pos, sc, drop) ==
    [cls |-> cls, var |-> FALSE, size |-> size, slots |-> slots, elem |-> "", lfield |-> "",
     pos |-> pos, sc |-> sc, drop |-> drop]
Var(cls, lfield, elem, pos, sc, drop) ==
    [cls |-> cls, var |-> TRUE, size |-> 0, slots |-> <<>>, elem |-> elem, lfield |-> lfield,
     pos |-> pos, sc |-> sc, drop |-> drop]
Slc(elem) == Var("slice", "X", elem, <<>>, <<>>, <<>>)

Sig == [
  ArrayType      |-> Fix("expr", 2, <<S("Len", "expr"), S("Elt", "expr")>>, <<"Lbrack">>, <<>>, <<>>),
  AssignStmt     |-> Fix("stmt", 2, <<S("Lhs", "exprs"), S("Rhs", "exprs")>>, <<"TokPos">>, <<"Tok">>, <<>>),
  BadDecl        |-> Fix("decl", 0, <<>>, <<"From", "To">>, <<>>, <<>>),
  BadExpr        |-> Fix("expr", 0, <<>>, <<"From", "To">>, <<>>, <<>>),
  BadStmt        |-> Fix("stmt", 0, <<>>, <<"From", "To">>, <<>>, <<>>),
  BasicLit       |-> Fix("expr", 0, <<>>, <<"ValuePos">>, <<"Kind", "Value">>, <<>>),
  BinaryExpr     |-> Fix("expr", 2, <<S("X", "expr"), S("Y", "expr")>>, <<"OpPos">>, <<"Op">>, <<>>),
  BlockStmt      |-> Var("stmt", "List", "stmt", <<"Lbrace", "Rbrace">>, <<>>, <<>>),
  BranchStmt     |-> Fix("stmt", 1, <<S("Label", "ident")>>, <<"TokPos">>, <<"Tok">>, <<>>),
  CallExpr       |-> Fix("expr", 2, <<S("Fun", "expr"), S("Args", "exprs")>>, <<"Lparen", "Rparen">>, <<"Ellipsis">>, <<>>),
  CaseClause     |-> Fix("stmt", 2, <<S("List", "exprs"), S("Body", "stmts")>>, <<"Case", "Colon">>, <<>>, <<>>),
  ChanType       |-> Fix("expr", 1, <<S("Value", "expr")>>, <<"Begin", "Arrow">>, <<"Dir">>, <<>>),
  CommClause     |-> Fix("stmt", 2, <<S("Comm", "stmt"), S("Body", "stmts")>>, <<"Case", "Colon">>, <<>>, <<>>),
  CompositeLit   |-> Fix("expr", 2, <<S("Type", "expr"), S("Elts", "exprs")>>, <<"Lbrace", "Rbrace">>, <<"Incomplete">>, <<>>),
  DeclStmt       |-> Fix("stmt", 1, <<S("Decl", "decl")>>, <<>>, <<>>, <<>>),
  DeferStmt      |-> Fix("stmt", 1, <<S("Call", "call")>>, <<"Defer">>, <<>>, <<>>),
  Ellipsis       |-> Fix("expr", 1, <<S("Elt", "expr")>>, <<"Ellipsis">>, <<>>, <<>>),
  EmptyStmt      |-> Fix("stmt", 0, <<>>, <<"Semicolon">>, <<"Implicit">>, <<>>),
  ExprStmt       |-> Fix("stmt", 1, <<S("X", "expr")>>, <<>>, <<>>, <<>>),
  Field          |-> Fix("other", 3, <<S("Names", "idents"), S("Type", "expr"), S("Tag", "lit")>>, <<>>, <<"Doc", "Comment">>, <<>>),
  FieldList      |-> Var("other", "List", "field", <<"Opening", "Closing">>, <<>>, <<>>),
  File           |-> Var("other", "Decls", "decl", <<"Package">>, <<"Doc", "Name", "Scope", "Imports", "Comments">>,
                         <<D("Unresolved", "resolver"), D("FileStart", "newer"), D("FileEnd", "newer"), D("GoVersion", "newer")>>),
  ForStmt        |-> Fix("stmt", 4, <<S("Init", "stmt"), S("Cond", "expr"), S("Post", "stmt"), S("Body", "block")>>, <<"For">>, <<>>, <<>>),
  FuncDecl       |-> Fix("decl", 4, <<S("Recv", "fieldlist"), S("Name", "ident"), S("Type", "functype"), S("Body", "block")>>, <<>>, <<"Doc">>, <<>>),
  FuncLit        |-> Fix("expr", 2, <<S("Type", "functype"), S("Body", "block")>>, <<>>, <<>>, <<>>),
  FuncType       |-> Fix("expr", 2, <<S("Params", "fieldlist"), S("Results", "fieldlist")>>, <<"Func">>, <<>>, <<D("TypeParams", "generics")>>),
  GenDecl        |-> Var("decl", "Specs", "spec", <<"TokPos", "Lparen", "Rparen">>, <<"Doc", "Tok">>, <<>>),
  GoStmt         |-> Fix("stmt", 1, <<S("Call", "call")>>, <<"Go">>, <<>>, <<>>),
  Ident          |-> Fix("expr", 0, <<>>, <<"NamePos">>, <<"Name">>, <<D("Obj", "resolver")>>),
  IfStmt         |-> Fix("stmt", 4, <<S("Init", "stmt"), S("Cond", "expr"), S("Body", "block"), S("Else", "stmt")>>, <<"If">>, <<>>, <<>>),
  ImportSpec     |-> Fix("spec", 2, <<S("Name", "ident"), S("Path", "lit")>>, <<"EndPos">>, <<"Doc", "Comment">>, <<>>),
  IncDecStmt     |-> Fix("stmt", 1, <<S("X", "expr")>>, <<"TokPos">>, <<"Tok">>, <<>>),
  IndexExpr      |-> Fix("expr", 2, <<S("X", "expr"), S("Index", "expr")>>, <<"Lbrack", "Rbrack">>, <<>>, <<>>),
  InterfaceType  |-> Fix("expr", 1, <<S("Methods", "fieldlist")>>, <<"Interface">>, <<"Incomplete">>, <<>>),
  KeyValueExpr   |-> Fix("expr", 2, <<S("Key", "expr"), S("Value", "expr")>>, <<"Colon">>, <<>>, <<>>),
  LabeledStmt    |-> Fix("stmt", 2, <<S("Label", "ident"), S("Stmt", "stmt")>>, <<"Colon">>, <<>>, <<>>),
  MapType        |-> Fix("expr", 2, <<S("Key", "expr"), S("Value", "expr")>>, <<"Map">>, <<>>, <<>>),
  \* ast_node.go: "func (x Package) Get(i int) Ast { return nil } // TODO": two slots never filled
  Package        |-> Fix("other", 2, <<S("", "none"), S("", "none")>>, <<>>, <<"Name", "Scope", "Imports">>, <<D("Files", "todo")>>),
  ParenExpr      |-> Fix("expr", 1, <<S("X", "expr")>>, <<"Lparen", "Rparen">>, <<>>, <<>>),
  RangeStmt      |-> Fix("stmt", 4, <<S("Key", "expr"), S("Value", "expr"), S("X", "expr"), S("Body", "block")>>, <<"For", "TokPos">>, <<"Tok">>,
                         <<D("Range", "newer")>>),
  \* ast_slice.go: "do not copy position of "return" keyword" (documented)
  ReturnStmt     |-> Var("stmt", "Results", "expr", <<>>, <<>>, <<D("Return", "documented")>>),
  SelectStmt     |-> Fix("stmt", 1, <<S("Body", "block")>>, <<"Select">>, <<>>, <<>>),
  SelectorExpr   |-> Fix("expr", 2, <<S("X", "expr"), S("Sel", "ident")>>, <<>>, <<>>, <<>>),
  SendStmt       |-> Fix("stmt", 2, <<S("Chan", "expr"), S("Value", "expr")>>, <<"Arrow">>, <<>>, <<>>),
  SliceExpr      |-> Fix("expr", 4, <<S("X", "expr"), S("Low", "expr"), S("High", "expr"), S("Max", "expr")>>, <<"Lbrack", "Rbrack">>, <<"Slice3">>, <<>>),
  StarExpr       |-> Fix("expr", 1, <<S("X", "expr")>>, <<"Star">>, <<>>, <<>>),
  StructType     |-> Fix("expr", 1, <<S("Fields", "fieldlist")>>, <<"Struct">>, <<"Incomplete">>, <<>>),
  SwitchStmt     |-> Fix("stmt", 3, <<S("Init", "stmt"), S("Tag", "expr"), S("Body", "block")>>, <<"Switch">>, <<>>, <<>>),
  TypeAssertExpr |-> Fix("expr", 2, <<S("X", "expr"), S("Type", "expr")>>, <<"Lparen", "Rparen">>, <<>>, <<>>),
  TypeSpec       |-> Fix("spec", 2, <<S("Name", "ident"), S("Type", "expr")>>, <<>>, <<"Doc", "Assign", "Comment">>, <<D("TypeParams", "generics")>>),
  TypeSwitchStmt |-> Fix("stmt", 3, <<S("Init", "stmt"), S("Assign", "stmt"), S("Body", "block")>>, <<"Switch">>, <<>>, <<>>),
  UnaryExpr      |-> Fix("expr", 1, <<S("X", "expr")>>, <<"OpPos">>, <<"Op">>, <<>>),
  ValueSpec      |-> Fix("spec", 3, <<S("Names", "idents"), S("Type", "expr"), S("Values", "exprs")>>, <<>>, <<"Doc", "Comment">>, <<>>),
  \* slice wrappers (ast_slice.go): not ast.Nodes
  AstSlice       |-> Slc("any"),
  NodeSlice      |-> Slc("node"),
  ExprSlice      |-> Slc("expr"),
  FieldSlice     |-> Slc("field"),
  DeclSlice      |-> Slc("decl"),
  IdentSlice     |-> Slc("ident"),
  SpecSlice      |-> Slc("spec"),
  StmtSlice      |-> Slc("stmt") ]

Kinds == DOMAIN Sig
\* go/ast node types ToAst refuses ("unsupported node type"): comments are attribute values only;
\* IndexListExpr belongs to Go 1.18 type-parameter syntax, which gomacro's parser does not produce
Unwrapped == {"Comment", "CommentGroup", "IndexListExpr"}

SeqSet(s) == {s[i] : i \in 1..Len(s)}
IndexOf(s, x) == CHOOSE i \in 1..Len(s) : s[i] = x

SliceKinds == {k \in Kinds : Sig[k].cls = "slice"}
NodeKinds  == Kinds \ SliceKinds
OfClass(c) == {k \in Kinds : Sig[k].cls = c}

SlotTypes == {"expr", "stmt", "decl", "spec", "ident", "lit", "block", "call", "fieldlist",
              "functype", "field", "exprs", "stmts", "idents", "node", "any", "none"}

\* kinds a slot of the given type may receive
AdmOf(ty) == CASE ty = "expr"      -> OfClass("expr")
             [] ty = "stmt"      -> OfClass("stmt")
             [] ty = "decl"      -> OfClass("decl")
             [] ty = "spec"      -> OfClass("spec")
             [] ty = "ident"     -> {"Ident"}
             [] ty = "lit"       -> {"BasicLit"}
             [] ty = "block"     -> {"BlockStmt"}
             [] ty = "call"      -> {"CallExpr"}
             [] ty = "fieldlist" -> {"FieldList"}
             [] ty = "functype"  -> {"FuncType"}
             [] ty = "field"     -> {"Field"}
             [] ty = "exprs"     -> {"ExprSlice"}
             [] ty = "stmts"     -> {"StmtSlice"}
             [] ty = "idents"    -> {"IdentSlice"}
             [] ty = "node"      -> NodeKinds
             [] ty = "any"       -> Kinds
             [] ty = "none"      -> {}

AdmTab == TLCEval([ty \in SlotTypes |-> AdmOf(ty)])
Adm(ty) == AdmTab[ty]

SlotTy(k, i) == IF Sig[k].var THEN Sig[k].elem ELSE Sig[k].slots[i].ty

\* Size() as the wrapper answers it (a separate function per kind in ast_node.go)
SizeTab(k) == IF Broken = "size-off" /\ k = "FuncDecl" THEN 3 ELSE Sig[k].size

---------------------------------------------------------------------------
(* attribute domains *)

Dom(k, a) ==
    CASE k = "AssignStmt" /\ a = "Tok" -> IF Rich THEN {"=", ":=", "+=", "<<=", "&^="} ELSE {"=", ":="}
      [] k = "BinaryExpr" /\ a = "Op"  -> IF Rich THEN {"+", "-", "*", "==", "!=", "<", "&&", "||", "<<", "&^", "|"} ELSE {"+", "&&"}
      [] k = "UnaryExpr" /\ a = "Op"   -> IF Rich THEN {"-", "!", "^", "&", "<-", "+", "~", "~quote", "~quasiquote",
                                                        "~unquote", "~unquote_splice", "~macro"}
                                          ELSE {"-", "~quote"}
      [] k = "BranchStmt" /\ a = "Tok" -> IF Rich THEN {"break", "continue", "goto", "fallthrough"} ELSE {"break", "goto"}
      [] k = "IncDecStmt" /\ a = "Tok" -> {"++", "--"}
      [] k = "GenDecl" /\ a = "Tok"    -> IF Rich THEN {"import", "const", "type", "var"} ELSE {"var", "type"}
      [] k = "RangeStmt" /\ a = "Tok"  -> IF Rich THEN {"ILLEGAL", "=", ":="} ELSE {"ILLEGAL", ":="}
      [] k = "BasicLit" /\ a = "Kind"  -> IF Rich THEN {"INT", "FLOAT", "IMAG", "CHAR", "STRING"} ELSE {"INT", "STRING"}
      [] k = "BasicLit" /\ a = "Value" -> IF Rich THEN {"0x1F", "1.5", "2i", "'c'", "\"s\""} ELSE {"1", "\"s\""}
      [] k = "Ident" /\ a = "Name"     -> IF Rich THEN {"a", "b", "_", "nil", "T"} ELSE {"a", "b"}
      [] k = "ChanType" /\ a = "Dir"   -> IF Rich THEN {1, 2, 3} ELSE {1, 3}
      [] a \in {"Implicit", "Incomplete", "Slice3"} -> BOOLEAN
      [] k = "CallExpr" /\ a = "Ellipsis" -> {0, 55}
      [] k = "TypeSpec" /\ a = "Assign"   -> {0, 77}
      [] k \in {"File", "Package"} /\ a = "Name" -> IF Rich THEN {"p", "main"} ELSE {"p"}
      [] a \in {"Doc", "Comment", "Comments", "Scope", "Imports"} -> {0, 1}

PosRec(k, b) == TLCEval([f \in SeqSet(Sig[k].pos) |-> IF b = 0 THEN 0 ELSE 100 * b + IndexOf(Sig[k].pos, f)])

RECURSIVE ScRecs(_, _)
ScRecs(k, names) == IF names = <<>> THEN {<<>>}
                    ELSE {(names[1] :> v) @@ r : v \in Dom(k, names[1]), r \in ScRecs(k, Tail(names))}

AttrsOf(k) == {p @@ s : p \in {PosRec(k, b) : b \in PosChoices}, s \in ScRecs(k, Sig[k].sc)}
AttrsTab == TLCEval([k \in Kinds |-> AttrsOf(k)])
Attrs(k) == AttrsTab[k]

---------------------------------------------------------------------------
(* Part 2: trees *)

\* NOTE for TLC: inside an action TLC does not cache LET definitions and operator arguments
\* (each reference re-evaluates the expression), so the generator keeps the pending holes
\* with their paths and the node count in the state instead of searching the tree, and the
\* operators used by actions refer to every costly argument once.

Nil  == [k |-> "Nil"]
None == [k |-> "None"]
Hole(ty, req) == [k |-> "Hole", ty |-> ty, req |-> req]          \* placeholder inside `tree`
HoleAt(p, ty, req) == [p |-> p, ty |-> ty, req |-> req]           \* pending hole: path from the root
Leafy(t) == t.k \in {"Nil", "Hole"}

\* a fresh node of kind k with placeholders for its children
MkNode(k, a, n) == TLCEval(
    [k |-> k, a |-> a,
     c |-> IF Sig[k].var THEN [i \in 1..n |-> Hole(Sig[k].elem, TRUE)]
           ELSE [i \in 1..Len(Sig[k].slots) |->
                   IF Sig[k].slots[i].ty = "none" THEN Nil
                   ELSE IF k = "SliceExpr" /\ i = 4
                        THEN (IF a.Slice3 THEN Hole("expr", TRUE) ELSE Nil)
                        ELSE Hole(Sig[k].slots[i].ty, FALSE)]])

\* the pending holes of a fresh node placed at path p, leftmost first
ChildHoles(nd, p) ==
    LET all == [i \in 1..Len(nd.c) |-> [h |-> nd.c[i].k = "Hole",
                                         e |-> IF nd.c[i].k = "Hole"
                                               THEN HoleAt(Append(p, i), nd.c[i].ty, nd.c[i].req)
                                               ELSE Nil]]
        sel == SelectSeq(all, LAMBDA x : x.h)
    IN [i \in 1..Len(sel) |-> sel[i].e]

\* number of children a fresh node requires (elements of a list, Max of a 3-index slice)
ReqOf(k, a, n) == IF Sig[k].var THEN n ELSE IF k = "SliceExpr" /\ a.Slice3 THEN 1 ELSE 0

\* replace the subtree at path p
RECURSIVE SetAt(_, _, _)
SetAt(t, p, x) == IF p = <<>> THEN x ELSE [t EXCEPT !.c[p[1]] = SetAt(@, Tail(p), x)]

Cost(k) == IF Sig[k].cls = "slice" THEN 0 ELSE 1      \* a slice wrapper is not a node

\* (used by the invariants only)
RECURSIVE Count(_), CountSeq(_, _), Req(_), ReqSeq(_, _)
Count(t) == IF Leafy(t) THEN 0 ELSE Cost(t.k) + CountSeq(t.c, 1)
CountSeq(s, i) == IF i > Len(s) THEN 0 ELSE Count(s[i]) + CountSeq(s, i + 1)
Req(t)   == IF t.k = "Hole" THEN (IF t.req THEN 1 ELSE 0)
            ELSE IF t.k = "Nil" THEN 0 ELSE ReqSeq(t.c, 1)
ReqSeq(s, i) == IF i > Len(s) THEN 0 ELSE Req(s[i]) + ReqSeq(s, i + 1)

Lens(k) == IF ~Sig[k].var THEN {0} ELSE IF Sig[k].cls = "slice" THEN 1..MaxList ELSE 0..MaxList

Init == /\ phase = "gen"
        /\ tree = Hole("any", TRUE)
        /\ holes = <<HoleAt(<<>>, "any", TRUE)>>
        /\ used = 1
        /\ pick = ""
        /\ stack = <<>>
        /\ result = None

\* fill the leftmost hole: absent, or a node of an admissible kind with chosen attributes.
\* used = nodes already committed = present nodes + pending required holes
HDepth(h) == Len(h.p) + 1
KindsAt(h) == IF h.p = <<>> /\ Roots # {} THEN Roots ELSE Adm(h.ty)
LensAt(k, h, room) == {m \in Lens(k) : m <= room /\ (m > 0 => HDepth(h) < MaxDepth)}
\* room left once a node of kind k sits in hole h
Room(k, h) == MaxNodes - (used - (IF h.req THEN 1 ELSE 0) + Cost(k))
CanBe(k, h) == Room(k, h) >= 0 /\ LensAt(k, h, Room(k, h)) # {}
\* a 3-index slice needs room for its Max child
RoomFor(k, a, n, h) == (k = "SliceExpr" /\ a.Slice3) => (n + 1 <= Room(k, h) /\ HDepth(h) < MaxDepth)

Absent(h) == /\ ~h.req
             /\ tree' = SetAt(tree, h.p, Nil)
             /\ holes' = Tail(holes)
             /\ used' = used

Present(k, a, n, h) ==
    /\ RoomFor(k, a, n, h)
    /\ \E nd \in {MkNode(k, a, n)} :
         /\ tree' = SetAt(tree, h.p, nd)
         /\ holes' = ChildHoles(nd, h.p) \o Tail(holes)
    /\ used' = used - (IF h.req THEN 1 ELSE 0) + Cost(k) + ReqOf(k, a, n)

Gen ==
    /\ phase = "gen"
    /\ holes # <<>>
    /\ LET h == holes[1] IN
       IF ~Staged
       THEN /\ pick' = pick
            /\ \/ Absent(h)
               \/ /\ HDepth(h) <= MaxDepth
                  /\ \E k \in KindsAt(h) :
                     /\ Room(k, h) >= 0
                     /\ \E n \in LensAt(k, h, Room(k, h)) : \E a \in Attrs(k) : Present(k, a, n, h)
       ELSE \/ /\ pick = ""                    \* absent ...
               /\ Absent(h)
               /\ pick' = ""
            \/ /\ pick = ""                    \* ... or present
               /\ HDepth(h) <= MaxDepth
               /\ \E k \in KindsAt(h) : CanBe(k, h)
               /\ pick' = "?"
               /\ UNCHANGED <<tree, holes, used>>
            \/ /\ pick = "?"                   \* its kind
               /\ \E k \in KindsAt(h) : CanBe(k, h) /\ pick' = k
               /\ UNCHANGED <<tree, holes, used>>
            \/ /\ pick \notin {"", "?"}         \* its attributes and length
               /\ \E n \in LensAt(pick, h, Room(pick, h)) : \E a \in Attrs(pick) : Present(pick, a, n, h)
               /\ pick' = ""
    /\ UNCHANGED <<phase, stack, result>>

---------------------------------------------------------------------------
(* Part 3: the wrapper *)

SizeW(t) == IF Sig[t.k].var THEN Len(t.c) ELSE SizeTab(t.k)

\* attributes New() does not copy
NewDrops(k, f) == \/ k = "SliceExpr" /\ f = "Slice3"
                  \/ Broken = "new-drops-attr" /\ k = "ChanType" /\ f = "Dir"
NewZero(k, f) == IF k = "SliceExpr" THEN FALSE ELSE 0

\* New(): same kind, same attributes, no children (a slice is then grown to Size() with Append(nil))
NewOf(t) == TLCEval([k |-> t.k,
             a |-> [f \in DOMAIN t.a |-> IF NewDrops(t.k, f) THEN NewZero(t.k, f) ELSE t.a[f]],
             c |-> [i \in 1..SizeW(t) |-> Nil]])

\* Set(i, c) (1-based here)
\* Set(i, c) (1-based here) on a node of kind k; refers to o once (see the note in Part 2)
SetChild(o, k, i, c) ==
    [o EXCEPT !.c[IF Broken = "set-swap" /\ k = "BinaryExpr" THEN 3 - i ELSE i] = c,
              !.a = IF k = "SliceExpr" /\ i = 4 THEN [@ EXCEPT !.Slice3 = (c.k # "Nil")] ELSE @]

Top == stack[Len(stack)]
Complete(f) == f.out.k # "None" /\ f.i > SizeW(f.in)

\* ToAst(node)
Wrap == /\ Stepwise
        /\ phase = "gen"
        /\ holes = <<>>
        /\ phase' = "walk"
        /\ stack' = <<[in |-> tree, out |-> None, i |-> 1]>>
        /\ UNCHANGED <<tree, holes, used, pick, result>>

New == /\ phase = "walk"
       /\ Top.out.k = "None"
       /\ stack' = [stack EXCEPT ![Len(stack)].out = NewOf(Top.in)]
       /\ UNCHANGED <<phase, tree, holes, used, pick, result>>

\* Get(i): an absent child is stored back at once (Set(i, nil)), a present one is rebuilt first
Get == /\ phase = "walk"
       /\ Top.out.k # "None"
       /\ Top.i <= SizeW(Top.in)
       /\ LET ch == Top.in.c[Top.i] IN
          stack' = IF ch.k = "Nil"
                   THEN [stack EXCEPT ![Len(stack)].out = SetChild(Top.out, Top.in.k, Top.i, Nil),
                                      ![Len(stack)].i = Top.i + 1]
                   ELSE Append(stack, [in |-> ch, out |-> None, i |-> 1])
       /\ UNCHANGED <<phase, tree, holes, used, pick, result>>

\* Set(i, rebuilt child) on the parent
Set == /\ phase = "walk"
       /\ Len(stack) > 1
       /\ Complete(Top)
       /\ LET p == stack[Len(stack) - 1] IN
          stack' = Append(SubSeq(stack, 1, Len(stack) - 2),
                          [p EXCEPT !.out = SetChild(p.out, p.in.k, p.i, Top.out), !.i = p.i + 1])
       /\ UNCHANGED <<phase, tree, holes, used, pick, result>>

\* ToNode(rebuilt wrapper)
Unwrap == /\ phase = "walk"
          /\ Len(stack) = 1
          /\ Complete(Top)
          /\ result' = Top.out
          /\ phase' = "done"
          /\ stack' = <<>>
          /\ UNCHANGED <<tree, holes, used, pick>>

\* the same rebuild as a constant-level operator
RECURSIVE Rebuild(_), RebuildFrom(_, _, _)
Rebuild(t) == IF t.k = "Nil" THEN Nil ELSE RebuildFrom(t, NewOf(t), 1)
RebuildFrom(t, o, i) == IF i > SizeW(t) THEN o
                        ELSE RebuildFrom(t, SetChild(o, t.k, i, Rebuild(t.c[i])), i + 1)

\* the whole rebuild as one step
RebuildAll == /\ ~Stepwise
              /\ phase = "gen"
              /\ holes = <<>>
              /\ phase' = "done"
              /\ UNCHANGED <<tree, holes, used, pick, stack, result>>

Next == Gen \/ Wrap \/ New \/ Get \/ Set \/ Unwrap \/ RebuildAll
Spec == Init /\ [][Next]_vars

---------------------------------------------------------------------------
(* Properties checked by TLC on the specification itself (M) *)

\* Size() of a fixed kind is its number of slots
\* (stated in every state so that TLC reports it as an invariant violation)
SizeOK == /\ phase \in {"gen", "walk", "done"}
          /\ \A k \in Kinds : ~Sig[k].var => SizeTab(k) = Len(Sig[k].slots)

ASSUME TableOK ==
    /\ \A k \in Kinds :
         /\ Sig[k].cls \in {"expr", "stmt", "decl", "spec", "other", "slice"}
         /\ \A i \in 1..Len(Sig[k].slots) : Sig[k].slots[i].ty \in SlotTypes
         /\ Sig[k].var => Sig[k].elem \in SlotTypes
         /\ Cardinality(SeqSet(Sig[k].pos) \cup SeqSet(Sig[k].sc)) = Len(Sig[k].pos) + Len(Sig[k].sc)
    /\ \A ty \in SlotTypes : Adm(ty) \subseteq Kinds
    /\ Unwrapped \cap Kinds = {}

\* a node: kind known, attributes exactly those of the table, children typed by the slots
RECURSIVE WellTyped(_)
WellTyped(t) ==
    \/ Leafy(t)
    \/ /\ t.k \in Kinds
       /\ DOMAIN t.a = SeqSet(Sig[t.k].pos) \cup SeqSet(Sig[t.k].sc)
       /\ ~Sig[t.k].var => Len(t.c) = Len(Sig[t.k].slots)
       /\ \A i \in 1..Len(t.c) :
            /\ Leafy(t.c[i]) \/ t.c[i].k \in Adm(SlotTy(t.k, i))
            /\ WellTyped(t.c[i])
       /\ t.k = "SliceExpr" /\ t.c[4].k # "Hole" => t.a.Slice3 = (t.c[4].k # "Nil")

\* the generator's bookkeeping agrees with the tree
TreeOK == phase = "gen" => /\ WellTyped(tree)
                           /\ used = Count(tree) + Req(tree)
                           /\ used <= MaxNodes
                           /\ \A n \in 1..Len(holes) :
                                Len(holes[n].p) < MaxDepth \/ (Len(holes[n].p) = MaxDepth /\ ~holes[n].req)

\* every Set stores a child of the slot's type; New yields Size() empty slots
SlotTypesOK ==
    \A n \in 1..Len(stack) :
       LET f == stack[n] IN
       f.out.k # "None" =>
          /\ f.out.k = f.in.k
          /\ Len(f.out.c) = SizeW(f.in)
          /\ \A j \in 1..Len(f.out.c) :
               /\ f.out.c[j].k = "Nil" \/ f.out.c[j].k \in Adm(SlotTy(f.out.k, j))
               /\ j >= f.i => f.out.c[j].k = "Nil"

\* rebuilding is the identity; the stack machine and the recursive definition agree
\* the result of the rebuild: by the stack machine, or by the recursive operator
Res == IF Stepwise THEN result ELSE Rebuild(tree)

\* rebuilding is the identity; the stack machine and the recursive definition agree
RebuildIdentity == phase = "done" => /\ Res = tree
                                     /\ Rebuild(tree) = Res

---------------------------------------------------------------------------
(* Behaviour emission (R) *)

\* Op() where it is an attribute or derived from the children
OpOf(t) == CASE t.k \in {"AssignStmt", "BranchStmt", "IncDecStmt", "GenDecl"} -> t.a.Tok
             [] t.k \in {"BinaryExpr", "UnaryExpr"} -> t.a.Op
             [] t.k = "BasicLit" -> t.a.Kind
             [] t.k \in {"CaseClause", "CommClause"} -> IF t.c[1].k = "Nil" THEN "default" ELSE "case"
             [] t.k = "TypeSpec" -> IF t.a.Assign = 0 THEN "type" ELSE "E_ALIASTYPE"
             [] OTHER -> ""

RECURSIVE PreOps(_), PreOpsSeq(_, _)
PreOps(t) == IF t.k = "Nil" THEN <<>> ELSE <<OpOf(t)>> \o PreOpsSeq(t.c, 1)
PreOpsSeq(s, i) == IF i > Len(s) THEN <<>> ELSE PreOps(s[i]) \o PreOpsSeq(s, i + 1)

Emit == IF ~EmitOn THEN TRUE
        ELSE IF phase = "gen" /\ tree.k = "Hole" /\ pick = ""
             THEN PrintT(ToJson([meta |-> TRUE, sig |-> Sig, kinds |-> Kinds,
                                 adm |-> [ty \in SlotTypes |-> Adm(ty)],
                                 unwrapped |-> Unwrapped]))
        ELSE IF phase = "done"
             THEN PrintT(ToJson([t |-> tree, r |-> Res, ops |-> PreOps(tree)]))
        ELSE TRUE
=============================================================================

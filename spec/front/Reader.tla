------------------------------- MODULE Reader -------------------------------
(***************************************************************************)
(* Where may a stream of Go source be cut into separately parsed chunks?   *)
(* (property C26; the code is base/read.go ReadMultiline.)                  *)
(*                                                                          *)
(* An input is a sequence of LINES, a line is a sequence of abstract        *)
(* lexical ITEMS [k |-> kind, v |-> variant] (the harness renders them to   *)
(* text, choosing spellings and spacing).  The module gives the Go-level    *)
(* meaning of every line end:                                               *)
(*   lexical part  : scanner mode (normal / inside a raw string / inside a *)
(*                   general comment), bracket depth, last significant      *)
(*                   item; Go's automatic-semicolon rule;                   *)
(*   syntactic part: a small statement automaton (operand/operator         *)
(*                   alternation, bracket kinds, blocks, if/else/for        *)
(*                   headers, labels, go/defer) that says whether the whole *)
(*                   input is a sequence of COMPLETE statements.  It is     *)
(*                   deliberately conservative: "X" = not known to be       *)
(*                   well-formed.                                           *)
(* Level of a line end:                                                     *)
(*   2  statement boundary (depth 0, nothing open, a semicolon is inserted *)
(*      or was written, or nothing has been read yet);                      *)
(*   1  lexically closed only (depth 0, nothing open) - inside a statement; *)
(*   0  inside a raw string, a general comment or an open bracket.         *)
(* The module is a SAFETY oracle: a reader may return a chunk only at a     *)
(* line end of level 2 if the input is a sequence of complete statements,  *)
(* and never at level 0; it may always read on.                            *)
(*                                                                          *)
(* Item kinds                                                               *)
(*   id int str rune raw1        operands (raw1: raw string on one line)    *)
(*   rawopen rawmid rawclose     raw string spanning lines                  *)
(*   lcmt cmt1                   // comment (last on its line), /* .. */    *)
(*   cmtopen cmtmid cmtclose     general comment spanning lines             *)
(*                               (cmtopen is the last item of its line)     *)
(*   binop slash                 binary-only operators ( "/" apart )        *)
(*   uop                         operators that are binary and unary (+ - * & ^ <-) *)
(*   not                         "!"                                        *)
(*   asg                         = := += ...                                *)
(*   comma dot semi colon inc    , . ; :  ++/--                             *)
(*   lp rp lb rb lc rc           ( ) [ ] { }                                *)
(*   kws                         break continue fallthrough return          *)
(*   kwc                         v=1 go/defer, 2 if, 3 for, 4 else          *)
(*   shebang                     "#!..." line, only as the first line       *)
(* A variant v = 1 of str/rune/raw*/cmt*/lcmt holds brackets and quotes.    *)
(***************************************************************************)
EXTENDS Naturals, Integers, Sequences, FiniteSets, TLC, Json

CONSTANTS Templates,      \* sequence of line templates (each a sequence of items)
          MaxLines,       \* bound on the number of lines of an input
          StringBrackets, \* FALSE: the rule. TRUE: broken variant - brackets inside
                          \* string literals are counted
          EmitOn,         \* print JSON records
          EmitAt          \* 0: every input (every prefix); n > 0: inputs of n lines only

VARIABLES lines,   \* the input: sequence of template indices
          sc,      \* scanner + syntax state after the last line
          ends     \* one record per line end

vars == <<lines, sc, ends>>

Operands  == {"id", "int", "str", "rune", "raw1"}
\* Go specification, "Semicolons": a semicolon is inserted after a line's final token if it is
\* an identifier, a literal, one of break/continue/fallthrough/return, ++ -- ) ] }
SemiAfter == {"id", "int", "str", "rune", "raw1", "rawclose", "kws", "inc", "rp", "rb", "rc"}
RawContentOnly(t) == \A i \in 1..Len(t) : t[i].k \notin {"raw1", "rawopen", "rawclose"}
CmtContentOnly(t) == \A i \in 1..Len(t) : t[i].k \notin {"cmt1", "cmtclose"}

Top(st) == IF st = <<>> THEN "" ELSE st[Len(st)]
Pop(st) == SubSeq(st, 1, Len(st) - 1)
StmtLevel(st) == Top(st) \in {"", "k", "ki"}

---------------------------------------------------------------------------
(* syntactic automaton.  syn:                                               *)
(*  S statement start   E operand expected   A after an operand             *)
(*  D after a selector dot   K after break/continue/fallthrough/return      *)
(*  Z statement complete, a terminator must follow   X unknown              *)
(* stack: p parenthesised expr, c call arguments, b index, l composite      *)
(*        literal, k block, ki block of an if                               *)

Bad(s) == [s EXCEPT !.syn = "X"]
To(s, q) == [s EXCEPT !.syn = q, !.els = FALSE, !.lbl = FALSE,
                      !.n = IF s.n < 2 THEN s.n + 1 ELSE 2]
Push(s, b) == [s EXCEPT !.stack = Append(s.stack, b)]
EndStmt(s) == [s EXCEPT !.syn = "S", !.asg = FALSE, !.n = 0, !.els = FALSE, !.dfr = FALSE]
\* a go/defer statement must end in a call
DeferOk(s) == ~s.dfr \/ s.last = "rp"
Terminate(s) ==
    IF s.syn \in {"S", "A", "K", "Z"} /\ StmtLevel(s.stack) /\ s.hdr = "" /\ DeferOk(s)
    THEN EndStmt(s) ELSE Bad(s)

Syn(s, it) ==
    LET k == it.k
        top == Top(s.stack)
        callable == s.last \in {"id", "rp", "rb"}
    IN
    IF s.syn = "X" THEN s
    ELSE IF k \in Operands \cup {"rawopen"} THEN
        IF s.syn \in {"S", "E", "K"} THEN To(s, "A")
        ELSE IF s.syn = "D" /\ k = "id" THEN To(s, "A") ELSE Bad(s)
    ELSE IF k = "uop" THEN IF s.syn \in {"S", "E", "K", "A"} THEN To(s, "E") ELSE Bad(s)
    ELSE IF k \in {"binop", "slash"} THEN IF s.syn = "A" THEN To(s, "E") ELSE Bad(s)
    ELSE IF k = "not" THEN IF s.syn \in {"S", "E", "K"} THEN To(s, "E") ELSE Bad(s)
    ELSE IF k = "asg" THEN
        IF s.syn = "A" /\ ~s.asg /\ ~s.dfr /\ StmtLevel(s.stack) /\ s.hdr = ""
        THEN [To(s, "E") EXCEPT !.asg = TRUE] ELSE Bad(s)
    ELSE IF k = "comma" THEN
        IF s.syn = "A" /\ s.hdr = "" /\ (top \in {"c", "l"} \/ (StmtLevel(s.stack) /\ s.asg))
        THEN To(s, "E") ELSE Bad(s)
    ELSE IF k = "dot" THEN IF s.syn = "A" /\ callable THEN To(s, "D") ELSE Bad(s)
    ELSE IF k = "lp" THEN
        IF s.syn \in {"S", "E", "K"} THEN Push(To(s, "E"), "p")
        ELSE IF s.syn = "A" /\ callable THEN Push(To(s, "E"), "c") ELSE Bad(s)
    ELSE IF k = "lb" THEN IF s.syn = "A" /\ callable THEN Push(To(s, "E"), "b") ELSE Bad(s)
    ELSE IF k = "lc" THEN
        IF s.hdr # "" THEN
            IF StmtLevel(s.stack) /\ (s.syn = "A" \/ (s.syn = "E" /\ s.last = "kwc" /\ s.hdr \in {"for", "else"}))
            THEN [EndStmt(s) EXCEPT !.stack = Append(s.stack, IF s.hdr = "if" THEN "ki" ELSE "k"), !.hdr = ""]
            ELSE Bad(s)
        ELSE IF s.syn = "A" /\ s.last = "id" THEN Push(To(s, "E"), "l")
        ELSE IF s.syn = "S" THEN [EndStmt(s) EXCEPT !.stack = Append(s.stack, "k")]
        ELSE Bad(s)
    ELSE IF k = "rp" THEN
        IF top \in {"p", "c"} /\ s.syn = "A" THEN [To(s, "A") EXCEPT !.stack = Pop(s.stack)]
        ELSE IF top = "c" /\ s.syn = "E" /\ s.last \in {"lp", "comma"} THEN [To(s, "A") EXCEPT !.stack = Pop(s.stack)]
        ELSE Bad(s)
    ELSE IF k = "rb" THEN
        IF top = "b" /\ s.syn = "A" THEN [To(s, "A") EXCEPT !.stack = Pop(s.stack)] ELSE Bad(s)
    ELSE IF k = "rc" THEN
        IF top = "l" /\ (s.syn = "A" \/ (s.syn = "E" /\ s.last \in {"lc", "comma"}))
        THEN [To(s, "A") EXCEPT !.stack = Pop(s.stack)]
        ELSE IF top \in {"k", "ki"} /\ s.syn \in {"S", "A", "K", "Z"} /\ s.hdr = "" /\ DeferOk(s)
        THEN [EndStmt(s) EXCEPT !.stack = Pop(s.stack), !.syn = "Z", !.els = (top = "ki"), !.n = 2]
        ELSE Bad(s)
    ELSE IF k = "inc" THEN
        IF s.syn = "A" /\ StmtLevel(s.stack) /\ ~s.asg /\ ~s.dfr /\ s.hdr = "" THEN To(s, "Z") ELSE Bad(s)
    ELSE IF k = "semi" THEN Terminate(s)
    ELSE IF k = "colon" THEN
        IF s.syn = "A" /\ s.n = 1 /\ s.last = "id" /\ StmtLevel(s.stack) /\ s.hdr = ""
        THEN [EndStmt(s) EXCEPT !.lbl = TRUE] ELSE Bad(s)
    ELSE IF k = "kws" THEN IF s.syn = "S" THEN To(s, "K") ELSE Bad(s)
    ELSE IF k = "kwc" THEN
        IF it.v = 1 THEN IF s.syn = "S" THEN [To(s, "E") EXCEPT !.dfr = TRUE] ELSE Bad(s)
        ELSE IF it.v = 2 THEN
            IF s.syn = "S" \/ (s.syn = "E" /\ s.hdr = "else" /\ s.last = "kwc")
            THEN [To(s, "E") EXCEPT !.hdr = "if"] ELSE Bad(s)
        ELSE IF it.v = 3 THEN IF s.syn = "S" THEN [To(s, "E") EXCEPT !.hdr = "for"] ELSE Bad(s)
        ELSE IF it.v = 4 THEN IF s.syn = "Z" /\ s.els THEN [To(s, "E") EXCEPT !.hdr = "else"] ELSE Bad(s)
        ELSE Bad(s)
    ELSE Bad(s)

---------------------------------------------------------------------------
(* lexical part *)

Opening == {"lp", "lb", "lc"}
Closing == {"rp", "rb", "rc"}

Lex(s, it) ==
    LET k == it.k IN
    IF k = "rawopen" THEN [s EXCEPT !.mode = "raw", !.last = k]
    ELSE IF k = "cmtopen" THEN [s EXCEPT !.mode = "cmt"]
    ELSE IF k \in {"lcmt", "cmt1", "shebang"} THEN s
    ELSE IF k \in Opening THEN [s EXCEPT !.depth = s.depth + 1, !.last = k]
    ELSE IF k \in Closing THEN [s EXCEPT !.depth = s.depth - 1, !.last = k,
                                         !.neg = s.neg \/ s.depth = 0]
    ELSE IF k = "str" /\ StringBrackets /\ it.v = 1 THEN [s EXCEPT !.depth = s.depth + 1, !.last = k]
    ELSE [s EXCEPT !.last = k]

\* one item
Step(s, it) ==
    IF s.mode = "raw" THEN
        IF it.k = "rawclose" THEN [s EXCEPT !.mode = "n", !.last = "rawclose"] ELSE s
    ELSE IF s.mode = "cmt" THEN
        IF it.k = "cmtclose" THEN [s EXCEPT !.mode = "n"] ELSE s
    ELSE IF it.k \in {"lcmt", "cmt1", "cmtopen", "shebang"} THEN Lex(s, it)
    ELSE Lex(Syn(s, it), it)

RECURSIVE Scan(_, _, _)
Scan(s, t, i) == IF i > Len(t) THEN s ELSE Scan(Step(s, t[i]), t, i + 1)

\* the newline: automatic semicolon.  A general comment that contains a newline acts like a
\* newline, so the rule also applies on the line where such a comment opens.
LineEnd(s0, s, t) ==
    LET opened == s0.mode = "n" /\ s.mode = "cmt" IN
    IF (s.mode = "n" \/ opened) /\ s.last \in SemiAfter /\ s.syn # "X" /\ s.syn # "S"
    THEN Terminate(s)
    ELSE IF (s.mode = "n" \/ opened) /\ s.last \in SemiAfter /\ s.syn = "S"
    THEN EndStmt(s)
    ELSE s

ScanLine(s, t) == LineEnd(s, Scan(s, t, 1), t)

Level(s) == IF s.mode # "n" \/ s.depth # 0 THEN 0
            ELSE IF s.last \in SemiAfter \cup {"none", "semi"} THEN 2 ELSE 1

\* the whole input is a sequence of complete statements
Complete(s) == s.syn = "S" /\ s.stack = <<>> /\ ~s.lbl /\ s.mode = "n" /\ s.hdr = ""

StartsWith(t, K) == IF t = <<>> THEN FALSE ELSE t[1].k \in K
HasShebang(t) == \E i \in 1..Len(t) : t[i].k = "shebang"
Applicable(t, s, first) ==
    IF HasShebang(t) /\ ~first THEN FALSE
    ELSE IF s.mode = "raw" THEN (IF StartsWith(t, {"rawmid", "rawclose"}) THEN TRUE ELSE RawContentOnly(t))
    ELSE IF s.mode = "cmt" THEN (IF StartsWith(t, {"cmtmid", "cmtclose"}) THEN TRUE ELSE CmtContentOnly(t))
    ELSE ~StartsWith(t, {"rawmid", "rawclose", "cmtmid", "cmtclose"})

Sc0 == [mode |-> "n", depth |-> 0, neg |-> FALSE, last |-> "none", syn |-> "S", stack |-> <<>>,
        hdr |-> "", asg |-> FALSE, els |-> FALSE, lbl |-> FALSE, dfr |-> FALSE, n |-> 0]

Init == lines = <<>> /\ sc = Sc0 /\ ends = <<>>

\* (the bounded quantifier over a singleton makes TLC evaluate the scan once)
AddLine(ti) ==
    LET t == Templates[ti] IN
    /\ Applicable(t, sc, lines = <<>>) = TRUE
    /\ \E s2 \in {ScanLine(sc, t)} :
         /\ lines' = Append(lines, ti)
         /\ sc' = s2
         /\ ends' = Append(ends, [lv |-> Level(s2), last |-> s2.last, mode |-> s2.mode,
                                  depth |-> s2.depth,
                                  first |-> IF t = <<>> THEN "" ELSE t[1].k,
                                  final |-> IF t = <<>> THEN "" ELSE t[Len(t)].k])

Next == Len(lines) < MaxLines /\ \E ti \in 1..Len(Templates) : AddLine(ti)

Spec == Init /\ [][Next]_vars

---------------------------------------------------------------------------
(* (M) properties of the specification itself *)

TypeOK == /\ sc.mode \in {"n", "raw", "cmt"}
          /\ sc.syn \in {"S", "E", "A", "D", "K", "Z", "X"}
          /\ Len(ends) = Len(lines) /\ Len(lines) <= MaxLines

\* on inputs the syntactic automaton accepts so far, the lexical depth is the height of the
\* bracket stack, hence never negative (this is what the broken variant violates)
DepthIsStack == sc.syn # "X" => sc.depth = Len(sc.stack) /\ ~sc.neg /\ sc.depth >= 0

ModeConsistent ==
    /\ sc.mode = "raw" => sc.last = "rawopen"
    /\ sc.mode # "n" => (ends # <<>> /\ ends[Len(ends)].lv = 0)
    /\ \A i \in 1..Len(ends) : ends[i].lv = 2 => ends[i].mode = "n" /\ ends[i].depth = 0
    /\ \A i \in 1..Len(ends) : ends[i].lv >= 1 <=> (ends[i].mode = "n" /\ ends[i].depth = 0)

\* lexical and syntactic notions of "statement boundary" agree on accepted inputs
BoundaryIsComplete ==
    LET lv == IF ends = <<>> THEN 2 ELSE ends[Len(ends)].lv IN
    /\ Complete(sc) => lv = 2
    /\ (sc.syn # "X" /\ lv = 2 /\ ~sc.lbl) => Complete(sc)

---------------------------------------------------------------------------
(* emission (R) *)

Emit == IF EmitOn /\ lines # <<>> /\ (EmitAt = 0 \/ Len(lines) = EmitAt)
        THEN PrintT(ToJson([lines |-> lines, ends |-> ends, wf |-> Complete(sc), neg |-> sc.neg]))
        ELSE TRUE
=============================================================================

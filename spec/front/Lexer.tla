------------------------------- MODULE Lexer -------------------------------
(***************************************************************************)
(* Go's lexical grammar (The Go Programming Language Specification,        *)
(* "Lexical elements") as the token stream the standard scanner go/scanner *)
(* (go1.23) reports: (token, literal, offset) list plus an error count.    *)
(* Property C23: gomacro's forked scanner must produce the same stream on  *)
(* every input that uses none of its extensions ('~', '#', the word macro).*)
(*                                                                         *)
(* An input is a sequence of CODES over an abstract alphabet:              *)
(*   ASCII code      the character itself (letters that have a lexical     *)
(*                   role, operator characters, quotes, '0', '1', ...)     *)
(*   0  NUL          128 D23 (digit 2-3)   129 D47 (4-7)   130 D89 (8-9)   *)
(*   131 HEXUP  (A C F: hex digit, no other role)                          *)
(*   132 UPPER  (upper-case letter without lexical role, G..Z minus OPUX)  *)
(*   133 BOM    134 NALETTER (non-ASCII letter)  135 NADIGIT (non-ASCII    *)
(*   decimal digit: identifier part only)  136 BADBYTE (invalid UTF-8)     *)
(*   137 NASYM (non-ASCII, neither letter nor digit)  138 CTRL (ASCII      *)
(*   control character that is not white space)   64 '@' stands for the    *)
(*   ASCII characters that are no Go token ('@' '$' '?')                   *)
(*   32 stands for blank or tab.                                           *)
(* One code is one Unicode character (one call of the scanner's next()).   *)
(* Offsets in this module count codes, 0-based; the harness maps them to   *)
(* byte offsets of the rendered text.                                      *)
(*                                                                         *)
(* The scanner is small-step: one ScanStep per token, following the        *)
(* structure of the hand-written scanner (scanIdentifier, scanNumber,      *)
(* scanString, scanRawString, scanRune, scanEscape, scanComment, switch2/  *)
(* 3/4, skipWhitespace, insertSemi, nlPos).                                *)
(* Two generators: "raw" (every string over each focus alphabet up to its  *)
(* length bound, one code per step) and "derive" (a token sequence chosen  *)
(* from Menu with separators chosen from Seps; the derivation carries its  *)
(* own expected token stream, computed from the grammar's rules, not from  *)
(* the scanner).                                                           *)
(* An automatic semicolon that follows a comment run carries the other     *)
(* place where a scanner may put it (alt = start of the run, ai = index of *)
(* the run's first comment); adm says that the property admits that place  *)
(* ("a comment that ends the input").                                      *)
(***************************************************************************)
EXTENDS Integers, Sequences, FiniteSets, TLC, Json

CONSTANTS Gen,        \* "raw" | "derive"
          Alphabets,  \* raw: sequence of focus alphabets [a |-> set of codes, n |-> maximal length]
          MinEmit,    \* raw: emit only inputs of at least this length
          Menu,       \* derive: sequence of [sp, k, d]: spelling, kind, delimiter flag
          Seps,       \* derive: sequence of separators, each a sequence of pieces
          FinalSeps,  \* derive: separators allowed after the last token
          MaxToks,    \* derive: maximal number of tokens
          MinToks,    \* derive: minimal number of tokens
          BigStep,    \* TRUE: scan a whole input in one transition
          RandPick,   \* derive, simulation only: draw the token / separator with RandomElement
                      \* instead of branching over the whole menu
          BomFirst,   \* derive: the text may start with a byte order mark
          Broken,     \* "" | "noincsemi" | "sepok"  (self-test variants of the scanner)
          EmitOn

VARIABLES inp,    \* input (sequence of codes)
          phase,  \* "gen" | "scan" | "done"
          sc,     \* scanner state (see Step)
          dexp,   \* derive: expected tokens according to the derivation
          dst     \* generator bookkeeping [semi, fc, n, last, pm] (derive), [al] (raw: index of the alphabet)

vars == <<inp, phase, sc, dexp, dst>>

EOFC == -1
NUL == 0   NL == 10  CR == 13  SP == 32  DQ == 34  SQ == 39  STAR == 42  PLUS == 43
MINUS == 45  DOT == 46  SLASH == 47  ZERO == 48  ONE == 49  EQ == 61  BSL == 92
US == 95   BQ == 96
D23 == 128  D47 == 129  D89 == 130  HEXUP == 131  UPPER == 132  BOM == 133
NALETTER == 134  NADIGIT == 135  BADBYTE == 136  NASYM == 137  CTRL == 138

At(s, i) == IF i >= 1 /\ i <= Len(s) THEN s[i] ELSE EOFC

ExactUpper == {66, 68, 69, 79, 80, 85, 88}          \* B D E O P U X
\* (named constant sets are evaluated once by TLC)
LetterSet  == (97..122) \cup ExactUpper \cup {US, HEXUP, UPPER, NALETTER}
DecimalSet == {ZERO, ONE, D23, D47, D89}
IdPartSet  == LetterSet \cup DecimalSet \cup {NADIGIT}
HexSet     == DecimalSet \cup (97..102) \cup {66, 68, 69, HEXUP}
OctSet     == {ZERO, ONE, D23, D47}
IsLetter(c)  == c \in LetterSet
IsDecimal(c) == c \in DecimalSet
IsIdPart(c)  == c \in IdPartSet
IsHex(c)     == c \in HexSet
IsOct(c)     == c \in OctSet
IsX(c) == c = 120 \/ c = 88     IsO(c) == c = 111 \/ c = 79    IsB(c) == c = 98 \/ c = 66
IsE(c) == c = 101 \/ c = 69     IsP(c) == c = 112 \/ c = 80
DigitBelow(c, base) == IF base = 2 THEN c \in {ZERO, ONE}
                       ELSE IF base = 8 THEN IsOct(c) ELSE TRUE

Keywords == <<
  <<"break", <<98,114,101,97,107>>>>,
  <<"case", <<99,97,115,101>>>>,
  <<"chan", <<99,104,97,110>>>>,
  <<"const", <<99,111,110,115,116>>>>,
  <<"continue", <<99,111,110,116,105,110,117,101>>>>,
  <<"default", <<100,101,102,97,117,108,116>>>>,
  <<"defer", <<100,101,102,101,114>>>>,
  <<"else", <<101,108,115,101>>>>,
  <<"fallthrough", <<102,97,108,108,116,104,114,111,117,103,104>>>>,
  <<"for", <<102,111,114>>>>,
  <<"func", <<102,117,110,99>>>>,
  <<"go", <<103,111>>>>,
  <<"goto", <<103,111,116,111>>>>,
  <<"if", <<105,102>>>>,
  <<"import", <<105,109,112,111,114,116>>>>,
  <<"interface", <<105,110,116,101,114,102,97,99,101>>>>,
  <<"map", <<109,97,112>>>>,
  <<"package", <<112,97,99,107,97,103,101>>>>,
  <<"range", <<114,97,110,103,101>>>>,
  <<"return", <<114,101,116,117,114,110>>>>,
  <<"select", <<115,101,108,101,99,116>>>>,
  <<"struct", <<115,116,114,117,99,116>>>>,
  <<"switch", <<115,119,105,116,99,104>>>>,
  <<"type", <<116,121,112,101>>>>,
  <<"var", <<118,97,114>>>>
>>
KeywordNames == {Keywords[i][1] : i \in 1..Len(Keywords)}
IdentKinds == {"IDENT"} \cup KeywordNames
MacroWord == <<109,97,99,114,111>>

OpTable == <<
  <<"+", <<43>>>>, <<"-", <<45>>>>, <<"*", <<42>>>>, <<"/", <<47>>>>, <<"%", <<37>>>>,
  <<"&", <<38>>>>, <<"|", <<124>>>>, <<"^", <<94>>>>, <<"<<", <<60,60>>>>, <<">>", <<62,62>>>>,
  <<"&^", <<38,94>>>>, <<"+=", <<43,61>>>>, <<"-=", <<45,61>>>>, <<"*=", <<42,61>>>>,
  <<"/=", <<47,61>>>>, <<"%=", <<37,61>>>>, <<"&=", <<38,61>>>>, <<"|=", <<124,61>>>>,
  <<"^=", <<94,61>>>>, <<"<<=", <<60,60,61>>>>, <<">>=", <<62,62,61>>>>, <<"&^=", <<38,94,61>>>>,
  <<"&&", <<38,38>>>>, <<"||", <<124,124>>>>, <<"<-", <<60,45>>>>, <<"++", <<43,43>>>>,
  <<"--", <<45,45>>>>, <<"==", <<61,61>>>>, <<"<", <<60>>>>, <<">", <<62>>>>, <<"=", <<61>>>>,
  <<"!", <<33>>>>, <<"!=", <<33,61>>>>, <<"<=", <<60,61>>>>, <<">=", <<62,61>>>>,
  <<":=", <<58,61>>>>, <<"...", <<46,46,46>>>>, <<"(", <<40>>>>, <<"[", <<91>>>>,
  <<"{", <<123>>>>, <<",", <<44>>>>, <<".", <<46>>>>, <<")", <<41>>>>, <<"]", <<93>>>>,
  <<"}", <<125>>>>, <<";", <<59>>>>, <<":", <<58>>>>
>>
OpNames == {OpTable[i][1] : i \in 1..Len(OpTable)}
OpSpell == [k \in OpNames |-> OpTable[CHOOSE i \in 1..Len(OpTable) : OpTable[i][1] = k][2]]
IsPrefixOf(v, w) == Len(v) <= Len(w) /\ SubSeq(w, 1, Len(v)) = v
\* the table entries that extend an operator's spelling (constant, evaluated once)
OpLonger == [k \in OpNames |-> {OpTable[i][2] : i \in {j \in 1..Len(OpTable) :
                 Len(OpTable[j][2]) > Len(OpSpell[k]) /\ IsPrefixOf(OpSpell[k], OpTable[j][2])}}]
OpChars == {OpTable[i][2][1] : i \in 1..Len(OpTable)}

\* The Go specification, "Semicolons", rule 1
SemiKinds == {"IDENT", "INT", "FLOAT", "IMAG", "CHAR", "STRING",
              "break", "continue", "fallthrough", "return", "++", "--", ")", "]", "}"}
LitKinds == {"IDENT", "INT", "FLOAT", "IMAG", "CHAR", "STRING", "COMMENT", "ILLEGAL", ";"}
             \cup KeywordNames

----------------------------------------------------------------------------
(* scanIdentifier *)
RECURSIVE IdentEnd(_, _)
IdentEnd(s, i) == IF IsIdPart(At(s, i)) THEN IdentEnd(s, i + 1) ELSE i

Lookup(w) == IF Len(w) > 1 /\ \E n \in 1..Len(Keywords) : Keywords[n][2] = w
             THEN Keywords[CHOOSE n \in 1..Len(Keywords) : Keywords[n][2] = w][1]
             ELSE "IDENT"

(* digits(base, &invalid): { digit | '_' } *)
RECURSIVE DigitsR(_, _, _, _, _, _)
DigitsR(s, i, base, dig, sep, inv) ==
    LET c == At(s, i) IN
    IF c = US THEN DigitsR(s, i + 1, base, dig, TRUE, inv)
    ELSE IF (base <= 10 /\ IsDecimal(c)) \/ (base = 16 /\ IsHex(c))
    THEN DigitsR(s, i + 1, base, TRUE, sep,
                 IF inv = 0 /\ ~DigitBelow(c, base) THEN i ELSE inv)
    ELSE [j |-> i, dig |-> dig, sep |-> sep, inv |-> inv]

(* invalidSep(lit) >= 0 : '_' must separate successive digits *)
RECURSIVE SepBadR(_, _, _, _, _)
SepBadR(s, k, j, d, hex) ==
    IF k >= j THEN d = "_"
    ELSE LET c == s[k] IN
         IF c = US THEN IF d # "0" THEN TRUE ELSE SepBadR(s, k + 1, j, "_", hex)
         ELSE IF IsDecimal(c) \/ (hex /\ IsHex(c)) THEN SepBadR(s, k + 1, j, "0", hex)
         ELSE IF d = "_" THEN TRUE ELSE SepBadR(s, k + 1, j, ".", hex)
SepBad(s, i, j) ==
    IF j - i >= 2 /\ s[i] = ZERO /\ (IsX(s[i + 1]) \/ IsO(s[i + 1]) \/ IsB(s[i + 1]))
    THEN SepBadR(s, i + 2, j, "0", IsX(s[i + 1]))
    ELSE SepBadR(s, i, j, ".", FALSE)

B2N(b) == IF b THEN 1 ELSE 0

(* scanNumber: [j, k, errs] *)
ScanNumber(s, i) ==
    LET c0 == At(s, i)
        c1 == At(s, i + 1)
        hd == IF c0 = DOT THEN [j |-> i, base |-> 10, pre |-> "", lead |-> FALSE]
              ELSE IF c0 # ZERO THEN [j |-> i, base |-> 10, pre |-> "", lead |-> FALSE]
              ELSE IF IsX(c1) THEN [j |-> i + 2, base |-> 16, pre |-> "x", lead |-> FALSE]
              ELSE IF IsO(c1) THEN [j |-> i + 2, base |-> 8, pre |-> "o", lead |-> FALSE]
              ELSE IF IsB(c1) THEN [j |-> i + 2, base |-> 2, pre |-> "b", lead |-> FALSE]
              ELSE [j |-> i + 1, base |-> 8, pre |-> "0", lead |-> TRUE]
        d1 == IF c0 = DOT THEN [j |-> i, dig |-> FALSE, sep |-> FALSE, inv |-> 0]
              ELSE DigitsR(s, hd.j, hd.base, hd.lead, FALSE, 0)
        frac == At(s, d1.j) = DOT
        d2 == IF frac THEN DigitsR(s, d1.j + 1, hd.base, d1.dig, d1.sep, d1.inv) ELSE d1
        eRadix == frac /\ hd.pre \in {"o", "b"}
        eNoDig == ~d2.dig
        ec == At(s, d2.j)
        hasExp == IsE(ec) \/ IsP(ec)
        eExp == hasExp /\ ((IsE(ec) /\ hd.pre \notin {"", "0"}) \/ (IsP(ec) /\ hd.pre # "x"))
        sg == IF hasExp /\ At(s, d2.j + 1) \in {PLUS, MINUS} THEN d2.j + 2 ELSE d2.j + 1
        d3 == IF hasExp THEN DigitsR(s, sg, 10, FALSE, d2.sep, 0) ELSE d2
        eExpDig == hasExp /\ ~d3.dig
        eHexP == ~hasExp /\ hd.pre = "x" /\ frac
        imag == At(s, d3.j) = 105
        j == IF imag THEN d3.j + 1 ELSE d3.j
        k == IF imag THEN "IMAG" ELSE IF frac \/ hasExp THEN "FLOAT" ELSE "INT"
        eInv == k = "INT" /\ d2.inv # 0
        eSep == d3.sep /\ Broken # "sepok" /\ SepBad(s, i, j)
    IN [j |-> j, k |-> k,
        errs |-> B2N(eRadix) + B2N(eNoDig) + B2N(eExp) + B2N(eExpDig) + B2N(eHexP)
                 + B2N(eInv) + B2N(eSep)]

(* scanEscape(quote): k is the index after the backslash; [j, ok] *)
SimpleEsc == {97, 98, 102, 110, 114, 116, 118, BSL}     \* a b f n r t v \
HiHexSet == {D89, 97, 98, 99, 100, 101, 102, 66, 68, 69, HEXUP}   \* value >= 8
HiHex(c) == c \in HiHexSet
Surrogate(a, b) == a \in {100, 68} /\ HiHex(b)
EscDigits(s, k, n, base, okval) ==
    LET bad == {m \in 0..(n - 1) : IF base = 8 THEN ~IsOct(At(s, k + m)) ELSE ~IsHex(At(s, k + m))}
    IN IF bad # {} THEN [j |-> k + (CHOOSE m \in bad : \A m2 \in bad : m <= m2), ok |-> FALSE]
       ELSE [j |-> k + n, ok |-> okval]
ScanEscape(s, k, q) ==
    LET c == At(s, k) IN
    IF c \in SimpleEsc \/ c = q THEN [j |-> k + 1, ok |-> TRUE]
    ELSE IF IsOct(c) THEN EscDigits(s, k, 3, 8, c # D47)          \* \400.. > 255
    ELSE IF c = 120 THEN EscDigits(s, k + 1, 2, 16, TRUE)
    ELSE IF c = 117 THEN EscDigits(s, k + 1, 4, 16, ~Surrogate(At(s, k + 1), At(s, k + 2)))
    ELSE IF c = 85 THEN EscDigits(s, k + 1, 8, 16,
             /\ At(s, k + 1) = ZERO /\ At(s, k + 2) = ZERO
             /\ (At(s, k + 3) = ZERO \/ (At(s, k + 3) = ONE /\ At(s, k + 4) = ZERO))
             /\ ~(At(s, k + 3) = ZERO /\ At(s, k + 4) = ZERO /\ Surrogate(At(s, k + 5), At(s, k + 6))))
    ELSE [j |-> k, ok |-> FALSE]     \* unknown escape / not terminated: nothing consumed

(* scanString: k is the index after the opening quote *)
RECURSIVE StrR(_, _, _)
StrR(s, k, errs) ==
    LET c == At(s, k) IN
    IF c = NL \/ c = EOFC THEN [j |-> k, errs |-> errs + 1]
    ELSE IF c = DQ THEN [j |-> k + 1, errs |-> errs]
    ELSE IF c = BSL THEN LET e == ScanEscape(s, k + 1, DQ) IN StrR(s, e.j, errs + B2N(~e.ok))
    ELSE StrR(s, k + 1, errs)

(* scanRune *)
RECURSIVE RuneR(_, _, _, _, _)
RuneR(s, k, n, valid, errs) ==
    LET c == At(s, k) IN
    IF c = NL \/ c = EOFC THEN [j |-> k, errs |-> errs + B2N(valid)]
    ELSE IF c = SQ THEN [j |-> k + 1, errs |-> errs + B2N(valid /\ n # 1)]
    ELSE IF c = BSL THEN LET e == ScanEscape(s, k + 1, SQ)
                         IN RuneR(s, e.j, n + 1, valid /\ e.ok, errs + B2N(~e.ok))
    ELSE RuneR(s, k + 1, n + 1, valid, errs)

(* scanRawString: carriage returns are not part of the literal *)
RECURSIVE RawR(_, _, _)
RawR(s, k, dr) ==
    LET c == At(s, k) IN
    IF c = EOFC THEN [j |-> k, errs |-> 1, dr |-> dr]
    ELSE IF c = BQ THEN [j |-> k + 1, errs |-> 0, dr |-> dr]
    ELSE RawR(s, k + 1, IF c = CR THEN Append(dr, k - 1) ELSE dr)

(* scanComment *)
RECURSIVE LineEnd(_, _)
LineEnd(s, k) == IF At(s, k) = NL \/ At(s, k) = EOFC THEN k ELSE LineEnd(s, k + 1)

RECURSIVE BlockR(_, _, _)      \* k: index of the next code; nl: index of first newline or 0
BlockR(s, k, nl) ==
    LET c == At(s, k) IN
    IF c = EOFC THEN [j |-> k, term |-> FALSE, nl |-> nl]
    ELSE IF c = STAR /\ At(s, k + 1) = SLASH THEN [j |-> k + 2, term |-> TRUE, nl |-> nl]
    ELSE BlockR(s, k + 1, IF c = NL /\ nl = 0 THEN k ELSE nl)

\* stripCR(lit, comment): in a /*-comment a CR between '*' and '/' stays (it would close the
\* comment early) unless it directly follows the opening
RECURSIVE StripR(_, _, _, _, _, _, _)
StripR(s, x, j, block, n, last, dr) ==
    IF x >= j THEN dr
    ELSE LET c == s[x]
             keep == c # CR \/ (block /\ n > 2 /\ last = STAR /\ x + 1 < j /\ s[x + 1] = SLASH)
         IN IF keep THEN StripR(s, x + 1, j, block, n + 1, c, dr)
            ELSE StripR(s, x + 1, j, block, n, last, Append(dr, x - 1))

ScanComment(s, i) ==     \* s[i] = '/' and s[i+1] \in {'/', '*'}
    IF At(s, i + 1) = SLASH
    THEN LET j == LineEnd(s, i + 2)
         IN [j |-> j, errs |-> 0, nl |-> 0, dr |-> StripR(s, i, j, FALSE, 0, 0, <<>>)]
    ELSE LET b == BlockR(s, i + 2, 0)
         IN [j |-> b.j, errs |-> B2N(~b.term), nl |-> b.nl, dr |-> StripR(s, i, b.j, TRUE, 0, 0, <<>>)]

(* operators: switch2 / switch3 / switch4 *)
Tk(k, n) == [k |-> k, n |-> n]
Sw2(n1, t0, t1) == IF n1 = EQ THEN Tk(t1, 2) ELSE Tk(t0, 1)
Sw3(n1, t0, t1, c2, t2) == IF n1 = EQ THEN Tk(t1, 2) ELSE IF n1 = c2 THEN Tk(t2, 2) ELSE Tk(t0, 1)
Sw4(n1, n2, t0, t1, c2, t2, t3) ==
    IF n1 = EQ THEN Tk(t1, 2)
    ELSE IF n1 = c2 THEN IF n2 = EQ THEN Tk(t3, 3) ELSE Tk(t2, 2)
    ELSE Tk(t0, 1)
OpAt(s, p) ==
    LET c == At(s, p)  n1 == At(s, p + 1)  n2 == At(s, p + 2) IN
    CASE c = 58 -> Sw2(n1, ":", ":=")
      [] c = DOT -> IF n1 = DOT /\ n2 = DOT THEN Tk("...", 3) ELSE Tk(".", 1)
      [] c = 44 -> Tk(",", 1)
      [] c = 59 -> Tk(";", 1)
      [] c = 40 -> Tk("(", 1)
      [] c = 41 -> Tk(")", 1)
      [] c = 91 -> Tk("[", 1)
      [] c = 93 -> Tk("]", 1)
      [] c = 123 -> Tk("{", 1)
      [] c = 125 -> Tk("}", 1)
      [] c = PLUS -> Sw3(n1, "+", "+=", PLUS, "++")
      [] c = MINUS -> Sw3(n1, "-", "-=", MINUS, "--")
      [] c = STAR -> Sw2(n1, "*", "*=")
      [] c = SLASH -> Sw2(n1, "/", "/=")
      [] c = 37 -> Sw2(n1, "%", "%=")
      [] c = 94 -> Sw2(n1, "^", "^=")
      [] c = 60 -> IF n1 = MINUS THEN Tk("<-", 2) ELSE Sw4(n1, n2, "<", "<=", 60, "<<", "<<=")
      [] c = 62 -> Sw4(n1, n2, ">", ">=", 62, ">>", ">>=")
      [] c = EQ -> Sw2(n1, "=", "==")
      [] c = 33 -> Sw2(n1, "!", "!=")
      [] c = 38 -> IF n1 = 94 THEN (IF n2 = EQ THEN Tk("&^=", 3) ELSE Tk("&^", 2))
                   ELSE Sw3(n1, "&", "&=", 38, "&&")
      [] c = 124 -> Sw3(n1, "|", "|=", 124, "||")

----------------------------------------------------------------------------
(* skipWhitespace *)
RECURSIVE SkipWs(_, _, _)
SkipWs(s, p, sm) ==
    LET c == At(s, p) IN
    IF c = SP \/ c = CR \/ (c = NL /\ ~sm) THEN SkipWs(s, p + 1, sm) ELSE p

\* errors reported by next() itself, once per character read
NextErrs(s, a, b) ==
    LET RECURSIVE N(_)
        N(x) == IF x >= b \/ x > Len(s) THEN 0
                ELSE N(x + 1) + B2N(s[x] = NUL \/ s[x] = BADBYTE \/ (s[x] = BOM /\ x > 1))
    IN N(a)

ScannerSemi(k) == k \in SemiKinds /\ ~(Broken = "noincsemi" /\ k = "++")

\* one token at p (white space already skipped): kind, end index, literal mode
\* (0 none, 1 source extent minus dr, 2 "\n", 3 U+FFFD), errors, new insertSemi, nlPos
Res(k, e, lm, dr, errs, sm, nl) ==
    [k |-> k, e |-> e, lm |-> lm, dr |-> dr, errs |-> errs, semi |-> sm, nl |-> nl]
TokenAt(s, p, sm) ==
    LET c == At(s, p) IN
    IF IsLetter(c) THEN
        LET e == IdentEnd(s, p)   k == Lookup(SubSeq(s, p, e - 1))
        IN Res(k, e, 1, <<>>, 0, ScannerSemi(k), -1)
    ELSE IF IsDecimal(c) \/ (c = DOT /\ IsDecimal(At(s, p + 1))) THEN
        LET n == ScanNumber(s, p) IN Res(n.k, n.j, 1, <<>>, n.errs, TRUE, -1)
    ELSE IF c = NL THEN Res(";", p + 1, 2, <<>>, 0, FALSE, -1)
    ELSE IF c = DQ THEN LET r == StrR(s, p + 1, 0) IN Res("STRING", r.j, 1, <<>>, r.errs, TRUE, -1)
    ELSE IF c = SQ THEN LET r == RuneR(s, p + 1, 0, TRUE, 0) IN Res("CHAR", r.j, 1, <<>>, r.errs, TRUE, -1)
    ELSE IF c = BQ THEN LET r == RawR(s, p + 1, <<>>) IN Res("STRING", r.j, 1, r.dr, r.errs, TRUE, -1)
    ELSE IF c = SLASH /\ At(s, p + 1) \in {SLASH, STAR} THEN
        LET r == ScanComment(s, p) IN
        IF sm /\ r.nl # 0 THEN Res("COMMENT", r.j, 1, r.dr, r.errs, FALSE, r.nl - 1)
        ELSE Res("COMMENT", r.j, 1, r.dr, r.errs, sm, -1)
    ELSE IF c \in OpChars THEN
        LET o == OpAt(s, p) IN Res(o.k, p + o.n, IF o.k = ";" THEN 1 ELSE 0, <<>>, 0, ScannerSemi(o.k), -1)
    ELSE Res("ILLEGAL", p + 1, IF c = BADBYTE THEN 3 ELSE 1, <<>>, B2N(c # BOM), sm, -1)

Tok(k, o, e, lm, dr, alt, ai) ==
    [k |-> k, o |-> o, e |-> e, lm |-> lm, dr |-> dr, alt |-> alt, ai |-> ai, adm |-> FALSE]
AutoSemi(o, e, f) == Tok(";", o, e, 2, <<>>, IF f = <<>> THEN -1 ELSE f[1], IF f = <<>> THEN 0 ELSE f[2])

\* "a comment that ends the input": the last automatic semicolon may also stand where the
\* comment run after its token starts, if only comments follow it and the input's last
\* character belongs to a comment
MarkAdm(ts, s) ==
    LET A == {n \in 1..Len(ts) : ts[n].lm = 2 /\ ts[n].alt >= 0} IN
    IF A = {} THEN ts
    ELSE LET n == CHOOSE x \in A : \A y \in A : y <= x
             ok == /\ \A m \in (n + 1)..Len(ts) : ts[m].k = "COMMENT"
                   /\ \E m \in 1..Len(ts) : ts[m].k = "COMMENT" /\ ts[m].e = Len(s)
         IN [ts EXCEPT ![n].adm = ok]

----------------------------------------------------------------------------
(* Scan: one token per step.  The scanner state is the record sc =                       *)
(*   [pos, semi, nlp, fc, toks, nerr, ext, done]                                           *)
(*   pos   1-based index of the next unread code                                           *)
(*   semi  insertSemi: the last significant token demands a semicolon at line end          *)
(*   nlp   nlPos: offset of the first newline inside the preceding comment, or -1          *)
(*   fc    <<>> or <<offset, index in toks>> of the first comment since the token that set *)
(*         semi (the other admissible place for the automatic semicolon)                   *)
StartPos(s) == IF At(s, 1) = BOM THEN 2 ELSE 1     \* Init ignores a BOM at the very beginning
Sc0(s) == [pos |-> StartPos(s), semi |-> FALSE, nlp |-> -1, fc |-> <<>>, toks |-> <<>>,
           nerr |-> 0, ext |-> FALSE, done |-> FALSE]

Step(s, x) ==
    IF x.nlp >= 0
    THEN \* artificial ';' after a /*...*/ comment containing a newline, at that newline
         [x EXCEPT !.toks = Append(@, AutoSemi(x.nlp, x.nlp, x.fc)), !.nlp = -1, !.fc = <<>>]
    ELSE LET p == SkipWs(s, x.pos, x.semi)
             c == At(s, p)
         IN IF c = EOFC
            THEN [x EXCEPT !.toks = MarkAdm(IF x.semi THEN Append(@, AutoSemi(Len(s), Len(s), x.fc))
                                            ELSE @, s),
                           !.done = TRUE, !.semi = FALSE, !.fc = <<>>, !.pos = p,
                           !.nerr = @ + NextErrs(s, x.pos, p)]
            ELSE LET r == TokenAt(s, p, x.semi)
                     t == IF r.lm = 2 THEN AutoSemi(p - 1, r.e - 1, x.fc)
                          ELSE Tok(r.k, p - 1, r.e - 1, r.lm, r.dr, -1, 0)
                 IN [x EXCEPT !.toks = Append(@, t), !.pos = r.e, !.semi = r.semi, !.nlp = r.nl,
                              !.nerr = @ + r.errs + NextErrs(s, x.pos, r.e),
                              !.fc = IF r.k = "COMMENT"
                                     THEN (IF x.fc = <<>> /\ x.semi THEN <<p - 1, Len(x.toks) + 1>> ELSE x.fc)
                                     ELSE <<>>,
                              !.ext = (@ \/ (r.k = "IDENT" /\ SubSeq(s, p, r.e - 1) = MacroWord))]

RECURSIVE Run(_, _)
Run(s, x) == IF x.done THEN x ELSE Run(s, Step(s, x))

\* BigStep = FALSE: one token per transition; TRUE: the same Step function iterated to the
\* end of the input within one transition (fewer states when only the result is replayed)
ScanStep ==
    /\ phase = "scan"
    /\ sc' = IF BigStep THEN Run(inp, sc) ELSE Step(inp, sc)
    /\ phase' = IF sc'.done THEN "done" ELSE "scan"
    /\ UNCHANGED <<inp, dexp, dst>>

----------------------------------------------------------------------------
(* Generator "raw": every string over one of the focus alphabets up to its length bound *)
GenRaw ==
    /\ phase = "gen" /\ Gen = "raw"
    /\ \/ /\ Len(inp) < Alphabets[dst.al].n
          /\ \E c \in Alphabets[dst.al].a : inp' = Append(inp, c)
          /\ UNCHANGED <<phase, sc>>
       \/ /\ Len(inp) >= MinEmit
          /\ sc' = IF BigStep THEN Run(inp, Sc0(inp)) ELSE Sc0(inp)
          /\ phase' = IF BigStep THEN "done" ELSE "scan"
          /\ UNCHANGED inp
    /\ UNCHANGED <<dexp, dst>>

(* Generator "derive": tokens from Menu separated by white space and comments from Seps. *)
(* The expected stream follows from the grammar: each menu entry is one token of the     *)
(* stated kind; a comment piece is one COMMENT; "Semicolons" rule 1 at the first newline *)
(* (or at the end of input) after a token of SemiKinds.                                   *)
CRSeq(txt, o) ==
    LET idx == SelectSeq([i \in 1..Len(txt) |-> i], LAMBDA i : txt[i] = CR)
    IN [n \in 1..Len(idx) |-> o + idx[n] - 1]
FirstNL(txt) == LET N == {i \in 1..Len(txt) : txt[i] = NL}
                IN IF N = {} THEN 0 ELSE CHOOSE i \in N : \A j \in N : i <= j

ApplyPiece(a, pc) ==
    LET o == Len(a.txt)
        txt2 == a.txt \o pc.txt
    IN IF pc.t = "cm"
       THEN LET nlrel == IF pc.txt[2] = STAR THEN FirstNL(pc.txt) ELSE 0
                f == IF a.fc = <<>> /\ a.semi THEN <<o, Len(a.ts) + 1>> ELSE a.fc
                ct == Tok("COMMENT", o, o + Len(pc.txt), 1, CRSeq(pc.txt, o), -1, 0)
            IN IF a.semi /\ nlrel # 0
               THEN [txt |-> txt2, semi |-> FALSE, fc |-> <<>>,
                     ts |-> a.ts \o <<ct, AutoSemi(o + nlrel - 1, o + nlrel - 1, f)>>]
               ELSE [txt |-> txt2, semi |-> a.semi, fc |-> f, ts |-> Append(a.ts, ct)]
       ELSE IF pc.t = "nl" /\ a.semi
       THEN [txt |-> txt2, semi |-> FALSE, fc |-> <<>>, ts |-> Append(a.ts, AutoSemi(o, o + 1, a.fc))]
       ELSE [a EXCEPT !.txt = txt2]

RECURSIVE ApplySep(_, _)
ApplySep(a, pcs) == IF pcs = <<>> THEN a ELSE ApplySep(ApplyPiece(a, Head(pcs)), Tail(pcs))

ApplyTok(a, m) ==
    LET o == Len(a.txt)
        dr == IF m.k = "STRING" /\ m.sp[1] = BQ THEN CRSeq(m.sp, o) ELSE <<>>
    IN [txt |-> a.txt \o m.sp, semi |-> m.k \in SemiKinds, fc |-> <<>>,
        ts |-> Append(a.ts, Tok(m.k, o, o + Len(m.sp), IF m.k \in LitKinds THEN 1 ELSE 0, dr, -1, 0))]

\* two tokens may touch only if one of them is a delimiter; a comment may not follow '/'
\* (IF rather than \/ : TLC explores every disjunct of a disjunction inside an action)
SepOk(last, sp, d) ==
    IF last = 0 THEN TRUE
    ELSE IF sp = <<>> THEN (IF d THEN TRUE ELSE Menu[last].d)
    ELSE IF sp[1].t = "cm" THEN Menu[last].sp[Len(Menu[last].sp)] # SLASH
    ELSE TRUE

\* (a token is picked in one transition and its separator in the next, so that simulation
\* does not have to build |Menu| x |Seps| successor texts per step)
GenDerive ==
    /\ phase = "gen" /\ Gen = "derive"
    /\ LET a0 == [txt |-> inp, ts |-> dexp, semi |-> dst.semi, fc |-> dst.fc] IN
       \/ /\ dst.pm = 0 /\ dst.n < MaxToks
          /\ \E mi \in (IF RandPick THEN {RandomElement(1..Len(Menu))} ELSE 1..Len(Menu)) :
               dst' = [dst EXCEPT !.pm = mi]
          /\ UNCHANGED <<inp, dexp, phase, sc>>
       \/ /\ dst.pm # 0
          /\ \E si \in (LET V == {x \in 1..Len(Seps) : SepOk(dst.last, Seps[x], Menu[dst.pm].d)}
                        IN IF RandPick THEN {RandomElement(V)} ELSE V) :
               /\ LET a2 == ApplyTok(ApplySep(a0, Seps[si]), Menu[dst.pm])
                  IN /\ inp' = a2.txt /\ dexp' = a2.ts
                     /\ dst' = [dst EXCEPT !.semi = a2.semi, !.fc = a2.fc, !.n = @ + 1, !.last = dst.pm, !.pm = 0]
          /\ UNCHANGED <<phase, sc>>
       \/ /\ dst.pm = 0 /\ dst.n >= MinToks
          /\ \E si \in (LET V == {x \in 1..Len(FinalSeps) : SepOk(dst.last, FinalSeps[x], TRUE)}
                        IN IF RandPick THEN {RandomElement(V)} ELSE V) :
               /\ LET a1 == ApplySep(a0, FinalSeps[si])
                      n == Len(a1.txt)
                  IN /\ inp' = a1.txt
                     /\ dexp' = MarkAdm(IF a1.semi THEN Append(a1.ts, AutoSemi(n, n, a1.fc)) ELSE a1.ts,
                                        a1.txt)
                     /\ sc' = IF BigStep THEN Run(a1.txt, Sc0(a1.txt)) ELSE Sc0(a1.txt)
          /\ phase' = IF BigStep THEN "done" ELSE "scan"
          /\ UNCHANGED dst

Init == /\ inp \in (IF Gen = "derive" /\ BomFirst THEN {<<>>, <<BOM>>} ELSE {<<>>})
        /\ phase = "gen" /\ sc = Sc0(<<>>) /\ dexp = <<>>
        /\ \E al \in (IF Gen = "raw" THEN 1..Len(Alphabets) ELSE {0}) :
              dst = [semi |-> FALSE, fc |-> <<>>, n |-> 0, last |-> 0, pm |-> 0, al |-> al]

Next == GenRaw \/ GenDerive \/ ScanStep
Spec == Init /\ [][Next]_vars

toks == sc.toks
nerr == sc.nerr

----------------------------------------------------------------------------
(* (M) properties of the token stream, checked on every completely scanned input *)
Done == phase = "done"
WS == {SP, CR, NL}
Real(t) == t.e > t.o

\* start offsets strictly increase
OffsetsIncrease == Done => \A n \in 1..(Len(toks) - 1) : toks[n].o < toks[n + 1].o

\* token extents are disjoint and ordered; every input character belongs to a token or is
\* skipped white space (or the initial BOM); a zero-extent ';' lies inside the preceding
\* comment or at the end of the input
Coverage ==
    Done =>
    /\ \A n \in 1..Len(toks) : Real(toks[n]) =>
          \A m \in {n + 1, n + 2} : (m <= Len(toks) /\ Real(toks[m])) => toks[n].e <= toks[m].o
    /\ \A x \in 1..Len(inp) :
          \/ \E n \in 1..Len(toks) : toks[n].o < x /\ x <= toks[n].e
          \/ inp[x] \in WS
          \/ (x = 1 /\ inp[x] = BOM)
    /\ \A n \in 1..Len(toks) : toks[n].o >= 0 /\ toks[n].e <= Len(inp) /\
          (~Real(toks[n]) => /\ toks[n].lm = 2
                             /\ \/ toks[n].o = Len(inp)
                                \/ /\ n > 1 /\ toks[n - 1].k = "COMMENT" /\ inp[toks[n].o + 1] = NL
                                   /\ toks[n - 1].o < toks[n].o /\ toks[n].o < toks[n - 1].e)

\* maximal munch: no operator of the table is a longer match at a token's offset; an
\* identifier or number does not stop before a character that continues it
PrefixAt(s, o, w) == o + Len(w) <= Len(s) /\ SubSeq(s, o + 1, o + Len(w)) = w
MaxMunch ==
    Done =>
    \A n \in 1..Len(toks) :
       LET t == toks[n] IN
       /\ (t.k \in OpNames /\ t.lm # 2 =>
             /\ PrefixAt(inp, t.o, OpSpell[t.k]) /\ Len(OpSpell[t.k]) = t.e - t.o
             /\ \A w \in OpLonger[t.k] : ~PrefixAt(inp, t.o, w))
       /\ (t.k \in IdentKinds =>
             ~IsIdPart(At(inp, t.e + 1)))
       /\ (t.k \in {"INT", "FLOAT"} => ~IsDecimal(At(inp, t.e + 1)) /\ At(inp, t.e + 1) # US)

\* "Semicolons" rule 1, stated on the finished stream independently of the scanner's flag
Plain(t) == t.k \notin {"COMMENT", "ILLEGAL"}
SemiRule ==
    Done =>
    /\ \A n \in 1..Len(toks) : toks[n].lm = 2 =>
          \E m \in 1..(n - 1) : /\ toks[m].k \in SemiKinds /\ toks[m].lm # 2
                                /\ \A x \in (m + 1)..(n - 1) : ~Plain(toks[x])
    /\ \A n \in 1..Len(toks) : toks[n].k \in SemiKinds /\ toks[n].lm # 2 =>
          LET J == {m \in (n + 1)..Len(toks) : Plain(toks[m])} IN
          /\ J # {}
          /\ LET j == CHOOSE m \in J : \A m2 \in J : m <= m2
             IN \/ toks[j].lm = 2
                \/ \A x \in (toks[n].e + 1)..toks[j].o : inp[x] # NL

\* the derivation and the scanner agree (two independent definitions of the token stream)
DerivAgree == (Done /\ Gen = "derive") => (toks = dexp /\ nerr = 0)

----------------------------------------------------------------------------
(* (R) emission: one record per scanned input, as one flat sequence of integers            *)
(*   <<Len(inp)>> \o inp \o <<nerr, ext, Len(toks)>> \o tokens, each token                  *)
(*   <<kind index in KindNames, offset, end, literal mode, alt, ai, adm, Len(dr)>> \o dr     *)
(* (ToString is an order of magnitude cheaper than ToJson); the kind names are printed     *)
(* once, as a JSON header.                                                                 *)
KindNames == <<"IDENT", "INT", "FLOAT", "IMAG", "CHAR", "STRING", "COMMENT", "ILLEGAL">>
             \o [i \in 1..Len(Keywords) |-> Keywords[i][1]]
             \o [i \in 1..Len(OpTable) |-> OpTable[i][1]]
KindIdx == [k \in {KindNames[i] : i \in 1..Len(KindNames)} |->
               CHOOSE i \in 1..Len(KindNames) : KindNames[i] = k]
RECURSIVE FlatToks(_, _)
FlatToks(ts, n) ==
    IF n > Len(ts) THEN <<>>
    ELSE LET t == ts[n]
         IN <<KindIdx[t.k], t.o, t.e, t.lm, t.alt, t.ai, B2N(t.adm), Len(t.dr)>> \o t.dr
            \o FlatToks(ts, n + 1)
Flat == <<Len(inp)>> \o inp \o <<nerr, B2N(sc.ext), Len(toks)>> \o FlatToks(toks, 1)
Emit == IF EmitOn /\ Done THEN PrintT(ToString(Flat)) ELSE TRUE
ASSUME EmitOn => PrintT(ToJson([kinds |-> KindNames]))
=============================================================================

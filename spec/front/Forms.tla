------------------------------- MODULE Forms -------------------------------
(***************************************************************************)
(* Abstract syntax forms shared by Macro.tla (C20) and Quasi.tla (C21),    *)
(* and the generator that makes TLC enumerate them.                        *)
(*                                                                         *)
(* A form is Node(k, a, c): kind, scalar attribute, sequence of children.  *)
(* It mirrors gomacro's ast2 wrapper (one child per slot, list-like nodes  *)
(* have one child per element):                                            *)
(*   id/a=name  int/a=digits            atoms (ast2 Size() = 0)            *)
(*   bin/a=op <<x, y>>   unary/a=op <<x>>   paren <<x>>                    *)
(*   call <<fun, list(args)>>            list = expression list slot       *)
(*   block <<stmt...>>   ret <<result...>>      (ast2.AstWithSlice nodes)   *)
(*   if <<init, cond, block, else>>   for <<init, cond, post, block>>      *)
(*   assign/a="=" | ":=" <<list(lhs), list(rhs)>>                          *)
(*   q, qq, uq, uqs <<block>>   ~quote ~quasiquote ~unquote ~unquote_splice *)
(*   xblock <<block>>   a block in expression position (op MACRO)          *)
(*   empty   the empty statement          nil   an absent optional child   *)
(* go/ast's ExprStmt / DeclStmt do not exist here: Go's typing forces them *)
(* around an expression in a statement slot and they carry nothing.        *)
(*                                                                         *)
(* Generator: a behaviour is a leftmost derivation. The state is a partial *)
(* tree whose open positions are hole nodes Node("hole", sort, <<>>); one  *)
(* step replaces the leftmost hole by one production of its sort. Leaves   *)
(* are named by creation order (a1, 2, a3, 4, ...), so every leaf of a     *)
(* generated tree is unique: a lost, duplicated or reordered child is      *)
(* visible in any projection. BFS enumerates every tree whose Cost is      *)
(* within MaxNodes; -simulate draws random larger ones.                    *)
(***************************************************************************)
EXTENDS Naturals, Sequences, FiniteSets, TLC, Json

CONSTANTS MaxNodes,   \* node budget of a generated tree
          Mode,       \* "macro": code with macro calls (C20, and C21's ~quote corpus)
                      \* "quasi": quasiquote templates whose unquotes name environment entries
          Kinds,      \* set of composite kinds the generator may use
          EnvT,       \* quasi mode: names usable in ~unquote        (tree or list valued)
          EnvTL,      \* quasi mode: more names usable in ~unquote as a statement (list valued)
          EnvL        \* quasi mode: names usable in ~unquote_splice (list valued)

VARIABLES tree,       \* Node("root", "", <<form>>): the partial tree
          n,          \* number of auto-named leaves placed so far
          calls       \* sequence of [name, arity, xargs]: the macro calls the generator may place
                      \* in lists (chosen in the initial state, constant afterwards); xargs: the
                      \* arguments are expressions even in a statement list (the macro's template
                      \* puts them into expression slots)

gvars == <<tree, n, calls>>

Node(k, a, c) == [k |-> k, a |-> a, c |-> c]
Nil    == Node("nil", "", <<>>)
Empty  == Node("empty", "", <<>>)
Id(s)  == Node("id", s, <<>>)
Block(s) == Node("block", "", s)
List(s)  == Node("list", "", s)
Hole(s)  == Node("hole", s, <<>>)

QuoteKinds == {"q", "qq", "uq", "uqs"}
ListKinds  == {"block", "ret", "list"}       \* ast2.AstWithSlice: one child per element
IsAtom(t)  == t.k \in {"id", "int"}

Leaf(i) == IF i % 2 = 1 THEN Id("a" \o ToString(i)) ELSE Node("int", ToString(i), <<>>)

Min(S) == CHOOSE x \in S : \A y \in S : x <= y

---------------------------------------------------------------------------
(* generic tree functions *)

RECURSIVE HasHole(_)
HasHole(t) == t.k = "hole" \/ \E i \in 1..Len(t.c) : HasHole(t.c[i])

\* path (child indices) of the leftmost hole; only called when HasHole(t)
RECURSIVE FirstHole(_)
FirstHole(t) == IF t.k = "hole" THEN <<>>
                ELSE LET i == Min({j \in 1..Len(t.c) : HasHole(t.c[j])})
                     IN <<i>> \o FirstHole(t.c[i])

RECURSIVE At(_, _)
At(t, p) == IF p = <<>> THEN t ELSE At(t.c[p[1]], Tail(p))

\* quasiquote depth at the end of path p, starting at depth d above t
RECURSIVE DepthAt(_, _, _)
DepthAt(t, p, d) ==
    IF p = <<>> THEN d
    ELSE DepthAt(t.c[p[1]], Tail(p),
                 IF t.k = "qq" THEN d + 1 ELSE IF t.k \in {"uq", "uqs"} THEN d - 1 ELSE d)

\* replace the child at path p (Len(p) >= 1) by the sequence of nodes news
RECURSIVE ReplaceAt(_, _, _)
ReplaceAt(t, p, news) ==
    IF Len(p) = 1
    THEN [t EXCEPT !.c = SubSeq(t.c, 1, p[1] - 1) \o news \o SubSeq(t.c, p[1] + 1, Len(t.c))]
    ELSE [t EXCEPT !.c[p[1]] = ReplaceAt(t.c[p[1]], Tail(p), news)]

\* holes that must still produce at least one node
Mandatory == {"expr", "exprY", "cond", "lexpr", "stmt", "exprs1", "stmts1", "envT", "envTL", "envL"}

RECURSIVE Sum(_, _)
Sum(f, i) == IF i = 0 THEN 0 ELSE f[i] + Sum(f, i - 1)

RECURSIVE Cost(_)
Cost(t) == IF t.k = "hole" THEN (IF t.a \in Mandatory THEN 1 ELSE 0)
           ELSE (IF t.k \in {"nil", "root", "list"} THEN 0 ELSE 1)
                + Sum([i \in 1..Len(t.c) |-> Cost(t.c[i])], Len(t.c))

RECURSIVE Size(_)
Size(t) == 1 + Sum([i \in 1..Len(t.c) |-> Size(t.c[i])], Len(t.c))

RECURSIVE Count(_, _)   \* number of nodes of kind in K
Count(t, K) == (IF t.k \in K THEN 1 ELSE 0) + Sum([i \in 1..Len(t.c) |-> Count(t.c[i], K)], Len(t.c))

RECURSIVE Leaves(_)     \* the atoms of a tree, left to right
Leaves(t) == IF IsAtom(t) THEN <<t.a>>
             ELSE LET RECURSIVE Cat(_)
                      Cat(i) == IF i > Len(t.c) THEN <<>> ELSE Leaves(t.c[i]) \o Cat(i + 1)
                  IN Cat(1)

SeqSet(s) == {s[i] : i \in 1..Len(s)}

---------------------------------------------------------------------------
(* productions: sort of the hole, quasiquote depth d at the hole, leaf number i.
   Each production is the sequence of nodes that replaces the hole.           *)

QBody(s)   == Block(<<Hole(s)>>)
K(k)       == k \in Kinds

\* body of an unquote whose content is at depth d1 (= depth of the unquote - 1)
UqBody(kind, d1) ==
    IF Mode = "quasi" /\ d1 = 0 THEN QBody(IF kind = "uq" THEN "envT" ELSE IF kind = "uq1" THEN "envTL" ELSE "envL")
    ELSE QBody(IF Mode = "quasi" THEN "stmts1" ELSE "stmts")
\* an unquote in a node slot (not a list element): in quasi mode its content is again a
\* node slot, so that a nested chain never ends in a splice outside a list position
UqSlotBody(d1) ==
    IF Mode = "quasi" THEN (IF d1 = 0 THEN QBody("envT") ELSE Block(<<Hole("expr")>>))
    ELSE QBody("stmts")

\* a quote nested in a quasiquote template is not left empty (the fast interpreter puts an
\* empty statement into an empty nested body: cosmetic, reported, excluded)
NestedBody == IF Mode = "quasi" THEN "stmts1" ELSE "stmts"

\* pos: "slot" = a node slot, "lexpr" = element of an expression list, "stmt" = element of a
\* statement list (where ~unquote of a list value inserts the block as ONE statement)
ExprProds(d, i, pos) ==
      {<<Leaf(i)>>}
    \cup (IF K("bin")   THEN {<<Node("bin", "+", <<Hole("expr"), Hole("exprY")>>)>>} ELSE {})
    \cup (IF K("unary") THEN {<<Node("unary", "!", <<Hole("exprY")>>)>>} ELSE {})
    \cup (IF K("paren") THEN {<<Node("paren", "", <<Hole("expr")>>)>>} ELSE {})
    \cup (IF K("call")  THEN {<<Node("call", "", <<Id("f"), List(<<Hole("exprs")>>)>>)>>} ELSE {})
    \cup (IF K("q")     THEN {<<Node("q", "", <<QBody(NestedBody)>>)>>} ELSE {})
    \cup (IF K("qq") /\ (Mode # "quasi" \/ d < 3)       \* templates nest quasiquotes up to depth 3
                         THEN {<<Node("qq", "", <<QBody(NestedBody)>>)>>} ELSE {})
    \cup (IF K("uq") /\ d > 0
          THEN {<<Node("uq", "", <<IF pos = "slot" THEN UqSlotBody(d - 1)
                                    ELSE UqBody(IF pos = "stmt" THEN "uq1" ELSE "uq", d - 1)>>)>>}
          ELSE {})

\* operand positions where an unparenthesised binary expression would re-associate
ExprYProds(d, i) == {p \in ExprProds(d, i, "slot") : p[1].k # "bin"}

StmtOnlyProds(i) ==
         (IF K("block") THEN {<<Block(<<Hole("stmts")>>)>>} ELSE {})
    \cup (IF K("if")    THEN {<<Node("if", "", <<Nil, Hole("cond"), Block(<<Hole("stmts")>>), Hole("else")>>)>>} ELSE {})
    \cup (IF K("for")   THEN {<<Node("for", "", <<Nil, Hole("cond"), Nil, Block(<<Hole("stmts")>>)>>)>>} ELSE {})
    \cup (IF K("for3")  THEN {<<Node("for", "", <<Node("assign", ":=", <<List(<<Id("v")>>), List(<<Hole("cond")>>)>>),
                                                   Hole("cond"),
                                                   Node("assign", "=", <<List(<<Id("v")>>), List(<<Hole("cond")>>)>>),
                                                   Block(<<Hole("stmts")>>)>>)>>} ELSE {})
    \cup (IF K("ret")   THEN {<<Node("ret", "", <<Hole("exprs")>>)>>} ELSE {})
    \cup (IF K("assign") THEN {<<Node("assign", "=", <<List(<<Id("v")>>), List(<<Hole("exprs1")>>)>>)>>} ELSE {})
    \cup (IF K("define") THEN {<<Node("assign", ":=", <<List(<<Id("w")>>), List(<<Hole("exprs1")>>)>>)>>} ELSE {})

\* a macro call in a list: the name followed by exactly `arity` element holes
CallProds(elem, tail) ==
    IF Mode # "macro" THEN {}
    ELSE {<<Id(calls[j].name)>> \o [x \in 1..calls[j].arity |-> Hole(IF calls[j].xargs THEN "lexpr" ELSE elem)]
                                \o <<Hole(tail)>> : j \in 1..Len(calls)}

SpliceProds(d, tail) ==
    IF K("uqs") /\ d > 0 THEN {<<Node("uqs", "", <<UqBody("uqs", d - 1)>>), Hole(tail)>>} ELSE {}

Prods(sort, d, i) ==
    CASE sort = "expr"   -> ExprProds(d, i, "slot")
      [] sort = "lexpr"  -> ExprProds(d, i, "lexpr")
      [] sort = "exprY"  -> ExprYProds(d, i)
      [] sort = "cond"   -> {p \in ExprYProds(d, i) : p[1].k \notin QuoteKinds} \cup
                            (IF K("bin") THEN {<<Node("bin", "+", <<Hole("cond"), Hole("exprY")>>)>>} ELSE {})
      [] sort = "stmt"   -> ExprProds(d, i, "stmt") \cup StmtOnlyProds(i)
      [] sort = "stmts"  -> {<<>>, <<Hole("stmt"), Hole("stmts")>>} \cup CallProds("stmt", "stmts") \cup SpliceProds(d, "stmts")
      [] sort = "stmts1" -> {<<Hole("stmt"), Hole("stmts")>>} \cup SpliceProds(d, "stmts")
      [] sort = "exprs"  -> {<<>>, <<Hole("lexpr"), Hole("exprs")>>} \cup CallProds("lexpr", "exprs") \cup SpliceProds(d, "exprs")
      [] sort = "exprs1" -> {<<Hole("lexpr"), Hole("exprs")>>} \cup CallProds("lexpr", "exprs") \cup SpliceProds(d, "exprs")
      [] sort = "else"   -> {<<Nil>>, <<Block(<<Hole("stmts")>>)>>}
      [] sort = "envT"   -> {<<Id(x)>> : x \in EnvT}
      [] sort = "envTL"  -> {<<Id(x)>> : x \in EnvT \cup EnvTL}
      [] sort = "envL"   -> {<<Id(x)>> : x \in EnvL}

UsesLeaf(prod) == Len(prod) = 1 /\ IsAtom(prod[1]) /\ prod[1] = Leaf(n + 1)

Complete == ~HasHole(tree)
Form     == tree.c[1]            \* the generated form (when Complete)

GenInit(root, cs) == /\ tree = Node("root", "", <<root>>)
                     /\ n = 0
                     /\ calls = cs

GenNext ==
    /\ HasHole(tree)
    /\ LET p    == FirstHole(tree)
           sort == At(tree, p).a
           d    == DepthAt(tree, p, 0)
       IN \E prod \in Prods(sort, d, n + 1) :
            LET t2 == ReplaceAt(tree, p, prod) IN
            /\ Cost(t2) <= MaxNodes
            /\ tree' = t2
            /\ n' = IF UsesLeaf(prod) THEN n + 1 ELSE n
            /\ UNCHANGED calls

\* well-formedness of generated forms (checked by TLC on every complete tree)
RECURSIVE DepthOK(_, _)
DepthOK(t, d) == /\ (t.k \in {"uq", "uqs"} => d > 0)
                 /\ \A i \in 1..Len(t.c) :
                       DepthOK(t.c[i], IF t.k = "qq" THEN d + 1 ELSE IF t.k \in {"uq", "uqs"} THEN d - 1 ELSE d)
RECURSIVE ShapeOK(_)
ShapeOK(t) == /\ (t.k \in QuoteKinds \cup {"xblock"} => Len(t.c) = 1 /\ t.c[1].k = "block")
              /\ (t.k \in {"if", "for"} => Len(t.c) = 4)
              /\ (t.k \in {"bin", "call", "assign"} => Len(t.c) = 2)
              /\ (t.k \in {"unary", "paren"} => Len(t.c) = 1)
              /\ (IsAtom(t) \/ t.k \in {"nil", "empty"} => t.c = <<>>)
              /\ \A i \in 1..Len(t.c) : ShapeOK(t.c[i])
LeavesDistinct(t) == LET l == Leaves(t) IN
                     \A i, j \in 1..Len(l) : (i # j /\ l[i] = l[j]) =>
                        (l[i] \in {"f", "v", "w"} \cup EnvT \cup EnvTL \cup EnvL \cup {calls[x].name : x \in 1..Len(calls)})
GenOK == Complete => /\ DepthOK(Form, 0) /\ ShapeOK(Form) /\ LeavesDistinct(Form)
                     /\ Cost(tree) <= MaxNodes
=============================================================================

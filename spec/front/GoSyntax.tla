------------------------------ MODULE GoSyntax ------------------------------
(***************************************************************************)
(* The syntax of Go without type parameters (The Go Programming Language   *)
(* Specification, "Declarations and scope" ... "Statements") as DATA:      *)
(* Grammar maps a nonterminal to a sequence of productions, a production   *)
(* is a sequence of items (terminals, nonterminals, list / optional        *)
(* markers, the statement terminator, constant attributes) together with   *)
(* the go/ast node kind it builds and, per item, the go/ast field it fills.*)
(*                                                                         *)
(* A behaviour is a LEFTMOST DERIVATION.  The state is                     *)
(*   stk   the spine of unfinished nodes: one frame per node, holding the  *)
(*         items still to derive and the fields built so far (= the        *)
(*         partial tree; the finished subtrees hang in the frames' fields) *)
(*   toks  the token list derived so far: terminal, spelling, separator    *)
(*         in front of it, code offsets [o, e)                             *)
(*   g     running offset, budget, scanner-relevant facts about the last   *)
(*         token (does it call for an automatic semicolon), pending        *)
(*         statement terminator                                            *)
(* Token spellings are fixed small strings (keywords / operators: table    *)
(* Fixed; identifiers and literals: the constant Spell, a menu per class), *)
(* separators are chosen from the constant Seps (blank, newline where a    *)
(* newline is allowed, comments).  A finished behaviour carries the        *)
(* abstract syntax tree (kind, scalar attributes, children, extent) and    *)
(* the text (the token list with its separators).                          *)
(*                                                                         *)
(* Properties C24 (parser) and C25 (printer) replay the finished           *)
(* behaviours on gomacro's forked go/parser and go/printer; the standard   *)
(* library's go/parser is the gate of this module.                         *)
(*                                                                         *)
(* Statement terminators (item SEMI) follow the specification's section    *)
(* "Semicolons": written ";", or a newline after a token that calls for an *)
(* automatic semicolon, or nothing in front of ")" and "}".                *)
(* Composite literals whose type is a type name are not derived in the     *)
(* header of if / for / switch unless enclosed in ( ) [ ] { } (frame       *)
(* attribute h: the "composite literal vs block" ambiguity).               *)
(***************************************************************************)
EXTENDS Integers, Sequences, FiniteSets, TLC, Json

CONSTANTS Starts,     \* set of <<start nonterminal, node budget>>; a behaviour draws one; start nonterminals:
                      \* "File" | "Top" | "TopStmt" | "TopExpr" | "TopMixed"
          Spell,      \* class of spelled terminal |-> sequence of spellings (sequences of codes)
          MaxSpell,   \* BFS: use only the first MaxSpell spellings of a class
          Seps,       \* sequence of separators [txt, nl, cm]: codes, contains newline, is/starts with a comment
          FinalSeps,  \* separators allowed after the last token
          CanonSep,   \* TRUE: no choice of separators ("" where tokens may touch, else blank, newline if due)
          RandPick,   \* simulation: draw productions, list lengths, spellings, separators at random
          Salts,      \* simulation: 1..Salts random numbers are discarded at the start of a behaviour (TLC's workers
                      \* share the seed of RandomElement: the salt, drawn by the simulator itself, sets them apart); BFS: 0
          Broken,     \* self-test variants: "" | "precminus" ('-' derived at the level of '*') | "unaryloose" (a unary
                      \* operator takes a multiplicative expression) | "noend" (a call's own tokens do not extend it)
          EmitOn      \* print every finished derivation (invariant Emit1)

VARIABLES stk, toks, g, out

vars == <<stk, toks, g, out>>

----------------------------------------------------------------------------
(* Terminals with a fixed spelling *)
Fixed == <<
  <<"break", <<98,114,101,97,107>>>>, <<"case", <<99,97,115,101>>>>, <<"chan", <<99,104,97,110>>>>,
  <<"const", <<99,111,110,115,116>>>>, <<"continue", <<99,111,110,116,105,110,117,101>>>>,
  <<"default", <<100,101,102,97,117,108,116>>>>, <<"defer", <<100,101,102,101,114>>>>,
  <<"else", <<101,108,115,101>>>>, <<"fallthrough", <<102,97,108,108,116,104,114,111,117,103,104>>>>,
  <<"for", <<102,111,114>>>>, <<"func", <<102,117,110,99>>>>, <<"go", <<103,111>>>>,
  <<"goto", <<103,111,116,111>>>>, <<"if", <<105,102>>>>, <<"import", <<105,109,112,111,114,116>>>>,
  <<"interface", <<105,110,116,101,114,102,97,99,101>>>>, <<"map", <<109,97,112>>>>,
  <<"package", <<112,97,99,107,97,103,101>>>>, <<"range", <<114,97,110,103,101>>>>,
  <<"return", <<114,101,116,117,114,110>>>>, <<"select", <<115,101,108,101,99,116>>>>,
  <<"struct", <<115,116,114,117,99,116>>>>, <<"switch", <<115,119,105,116,99,104>>>>,
  <<"type", <<116,121,112,101>>>>, <<"var", <<118,97,114>>>>,
  <<"+", <<43>>>>, <<"-", <<45>>>>, <<"*", <<42>>>>, <<"/", <<47>>>>, <<"%", <<37>>>>,
  <<"&", <<38>>>>, <<"|", <<124>>>>, <<"^", <<94>>>>, <<"<<", <<60,60>>>>, <<">>", <<62,62>>>>,
  <<"&^", <<38,94>>>>, <<"+=", <<43,61>>>>, <<"-=", <<45,61>>>>, <<"*=", <<42,61>>>>,
  <<"/=", <<47,61>>>>, <<"%=", <<37,61>>>>, <<"&=", <<38,61>>>>, <<"|=", <<124,61>>>>,
  <<"^=", <<94,61>>>>, <<"<<=", <<60,60,61>>>>, <<">>=", <<62,62,61>>>>, <<"&^=", <<38,94,61>>>>,
  <<"&&", <<38,38>>>>, <<"||", <<124,124>>>>, <<"<-", <<60,45>>>>, <<"++", <<43,43>>>>,
  <<"--", <<45,45>>>>, <<"==", <<61,61>>>>, <<"<", <<60>>>>, <<">", <<62>>>>, <<"=", <<61>>>>,
  <<"!", <<33>>>>, <<"!=", <<33,61>>>>, <<"<=", <<60,61>>>>, <<">=", <<62,61>>>>,
  <<":=", <<58,61>>>>, <<"...", <<46,46,46>>>>, <<"(", <<40>>>>, <<"[", <<91>>>>,
  <<"{", <<123>>>>, <<",", <<44>>>>, <<".", <<46>>>>, <<")", <<41>>>>, <<"]", <<93>>>>,
  <<"}", <<125>>>>, <<";", <<59>>>>, <<":", <<58>>>>
>>
FixedNames == {Fixed[i][1] : i \in 1..Len(Fixed)}
FixedSpell == [k \in FixedNames |-> Fixed[CHOOSE i \in 1..Len(Fixed) : Fixed[i][1] = k][2]]
SpellClasses == {"IDENT", "INT", "FLOAT", "IMAG", "CHAR", "STRING", "IMPORTPATH"}
WordKeywords == {"break", "case", "chan", "const", "continue", "default", "defer", "else",
                 "fallthrough", "for", "func", "go", "goto", "if", "import", "interface", "map",
                 "package", "range", "return", "select", "struct", "switch", "type", "var"}

\* "Semicolons", rule 1: tokens after which a newline becomes a semicolon
SemiKinds == {"IDENT", "INT", "FLOAT", "IMAG", "CHAR", "STRING", "IMPORTPATH",
              "break", "continue", "fallthrough", "return", "++", "--", ")", "]", "}"}
Delims  == {"(", "[", "{", ",", ")", "]", "}", ";"}
Closers == {")", "}"}
Wordy   == SpellClasses \cup WordKeywords
\* two tokens may be written without a separator if they cannot merge into other tokens
TouchOK(prev, next) ==
    IF prev = "" THEN TRUE
    ELSE IF next \in {".", "..."} THEN prev \in {"IDENT", ")", "]", "}"}
    ELSE IF prev \in {".", "..."} THEN next \in ({"IDENT", "(", "[", "*"} \cup WordKeywords)
    ELSE IF prev \in Delims \/ next \in Delims THEN TRUE
    ELSE (prev \in Wordy) # (next \in Wordy)

----------------------------------------------------------------------------
(* Items *)
T(tok)            == [t |-> "T", ts |-> {tok}, b |-> <<>>]
TP(tok, f)        == [t |-> "T", ts |-> {tok}, b |-> <<<<f, "p">>>>]
TPP(tok, f1, f2)  == [t |-> "T", ts |-> {tok}, b |-> <<<<f1, "p">>, <<f2, "p">>>>]
TK(ts, pf, vf)    == [t |-> "T", ts |-> ts, b |-> <<<<pf, "p">>, <<vf, "k">>>>]     \* position + token as value
TS(ts, pf, vf)    == [t |-> "T", ts |-> ts, b |-> <<<<pf, "p">>, <<vf, "s">>>>]     \* position + spelling
TLit(ts)          == [t |-> "T", ts |-> ts, b |-> <<<<"ValuePos", "p">>, <<"Kind", "k">>, <<"Value", "s">>>>]
TCarry(tok)       == [t |-> "T", ts |-> {tok}, b |-> <<<<"", "carry">>>>]           \* position handed to a later child
N(nt, f)          == [t |-> "N", nt |-> nt, f |-> f, l |-> FALSE, h |-> "k", cf |-> ""]
NL(nt, f)         == [t |-> "N", nt |-> nt, f |-> f, l |-> TRUE, h |-> "k", cf |-> ""]   \* one element of list field f
NH(nt, f, h)      == [t |-> "N", nt |-> nt, f |-> f, l |-> FALSE, h |-> h, cf |-> ""]     \* h: "1" header, "0" enclosed
NLH(nt, f, h)     == [t |-> "N", nt |-> nt, f |-> f, l |-> TRUE, h |-> h, cf |-> ""]
NC(nt, f, cf)     == [t |-> "N", nt |-> nt, f |-> f, l |-> FALSE, h |-> "k", cf |-> cf]   \* child receives the carried position as field cf
\* list of nt in list field f; ns: admissible lengths (repetitions = weights); sep: "" or a terminal;
\* trail: a separator may follow the last element
L(nt, f, ns, sep, trail, h) == [t |-> "L", nt |-> nt, f |-> f, ns |-> ns, sep |-> sep, trail |-> trail, h |-> h]
O(pct, its)       == [t |-> "O", pct |-> pct, its |-> its]      \* optional group, present with pct %
C(f, v)           == [t |-> "C", f |-> f, v |-> v]              \* constant attribute
SEMI              == [t |-> "S"]                                  \* statement terminator
Z(f)              == [t |-> "Z", f |-> f]                         \* zero-width node at the next token (implicit empty statement)

P(k, w, its)      == [k |-> k, w |-> w, c |-> "", its |-> its]
PC(k, w, c, its)  == [k |-> k, w |-> w, c |-> c, its |-> its]    \* c = "noh": not in a header context
I(w, its)         == [k |-> "", w |-> w, c |-> "", its |-> its]  \* inline production (builds no node); field "^" = the caller's

Names1(f)   == L("Ident", f, <<1, 1, 1, 2, 3>>, ",", FALSE, "k")
Exprs1(f)   == L("Expr", f, <<1, 1, 1, 2, 3>>, ",", FALSE, "k")
Exprs12(f)  == L("Expr", f, <<1, 2>>, ",", FALSE, "k")
Idents12(f) == L("Ident", f, <<1, 2>>, ",", FALSE, "k")
Stmts(f)    == L("StmtS", f, <<0, 1, 1, 2, 2, 3>>, "", FALSE, "0")
HdrInit     == O(40, <<O(70, <<NH("SimpleStmt", "Init", "1")>>), T(";")>>)
AssignOps   == {"=", "+=", "-=", "*=", "/=", "%=", "&=", "|=", "^=", "<<=", ">>=", "&^="}
OpAssignOps == AssignOps \ {"="}
RelOps      == {"==", "!=", "<", "<=", ">", ">="}
AddOps0     == {"+", "-", "|", "^"}
MulOps0     == {"*", "/", "%", "<<", ">>", "&", "&^"}
\* broken variant "precminus": the grammar lets '-' bind like '*'
AddOps      == IF Broken = "precminus" THEN AddOps0 \ {"-"} ELSE AddOps0
MulOps      == IF Broken = "precminus" THEN MulOps0 \cup {"-"} ELSE MulOps0
UnOps       == {"+", "-", "!", "^", "&", "<-"}
LitBody     == <<TP("{", "Lbrace"), L("Element", "Elts", <<0, 1, 1, 2, 3>>, ",", TRUE, "0"), TP("}", "Rbrace")>>
CallArgs    == <<TP("(", "Lparen"),
                 O(75, <<L("Arg", "Args", <<1, 1, 2, 3>>, ",", FALSE, "0"), O(15, <<TP("...", "Ellipsis")>>), O(10, <<T(",")>>)>>),
                 TP(")", "Rparen")>>
ParamsIn    == O(70, <<N("ParamList", "^")>>)

(* The grammar.  The FIRST production of every nonterminal is its shortest one (used when  *)
(* the node budget is exhausted).                                                          *)
GrammarSeq == <<
 \* ---- source file
 <<"File", <<P("File", 1, <<TP("package", "Package"), N("Ident", "Name"), SEMI,
                          L("ImportDeclS", "Decls", <<0, 0, 1, 2>>, "", FALSE, "0"),
                          L("TopDeclS", "Decls", <<0, 1, 2, 2, 3, 4>>, "", FALSE, "0")>>)>>>>,
 \* ---- gomacro's top level: a sequence of statements / expressions / declarations
 <<"Top", <<P("Top", 1, <<L("StmtS", "List", <<1, 1, 2, 2, 3, 4>>, "", FALSE, "0")>>)>>>>,
 <<"TopStmt", <<P("Top", 1, <<L("StmtS", "List", <<1>>, "", FALSE, "0")>>)>>>>,
 <<"TopExpr", <<P("Top", 1, <<L("ExprStmtS", "List", <<1>>, "", FALSE, "0")>>)>>>>,
 <<"TopMixed", <<P("Top", 1, <<L("MixedS", "List", <<1, 2, 2, 3, 4>>, "", FALSE, "0")>>)>>>>,
 <<"MixedS", <<I(3, <<N("StmtS", "^")>>), I(2, <<N("FuncDecl", "^"), SEMI>>), I(1, <<N("ImportDecl", "^"), SEMI>>)>>>>,
 <<"ExprStmtS", <<I(1, <<N("ExprStmt", "^"), SEMI>>)>>>>,
 <<"ImportDeclS", <<I(1, <<N("ImportDecl", "^"), SEMI>>)>>>>,
 <<"TopDeclS", <<I(3, <<N("Decl", "^"), SEMI>>), I(3, <<N("FuncDecl", "^"), SEMI>>)>>>>,
 \* ---- declarations
 <<"ImportDecl", <<P("GenDecl", 2, <<TK({"import"}, "TokPos", "Tok"), NL("ImportSpec", "Specs")>>),
                   P("GenDecl", 1, <<TK({"import"}, "TokPos", "Tok"), TP("(", "Lparen"),
                                     L("ImportSpecS", "Specs", <<0, 1, 2, 2>>, "", FALSE, "0"), TP(")", "Rparen")>>)>>>>,
 <<"ImportSpecS", <<I(1, <<N("ImportSpec", "^"), SEMI>>)>>>>,
 <<"ImportSpec", <<P("ImportSpec", 1, <<O(40, <<N("ImportName", "Name")>>), N("ImportPath", "Path")>>)>>>>,
 <<"ImportName", <<P("Ident", 2, <<TS({"IDENT"}, "NamePos", "Name")>>), P("Ident", 1, <<TS({"."}, "NamePos", "Name")>>)>>>>,
 <<"ImportPath", <<P("BasicLit", 1, <<TLit({"IMPORTPATH"})>>)>>>>,
 <<"Decl", <<I(3, <<N("VarDecl", "^")>>), I(2, <<N("ConstDecl", "^")>>), I(2, <<N("TypeDecl", "^")>>)>>>>,
 <<"VarDecl", <<P("GenDecl", 3, <<TK({"var"}, "TokPos", "Tok"), NL("VarSpec", "Specs")>>),
                P("GenDecl", 1, <<TK({"var"}, "TokPos", "Tok"), TP("(", "Lparen"),
                                  L("VarSpecS", "Specs", <<0, 1, 2, 2, 3>>, "", FALSE, "0"), TP(")", "Rparen")>>)>>>>,
 <<"VarSpecS", <<I(1, <<N("VarSpec", "^"), SEMI>>)>>>>,
 <<"VarSpec", <<P("ValueSpec", 2, <<Names1("Names"), N("Type", "Type")>>),
                P("ValueSpec", 2, <<Names1("Names"), N("Type", "Type"), T("="), Exprs1("Values")>>),
                P("ValueSpec", 2, <<Names1("Names"), T("="), Exprs1("Values")>>)>>>>,
 <<"ConstDecl", <<P("GenDecl", 2, <<TK({"const"}, "TokPos", "Tok"), NL("ConstSpec1", "Specs")>>),
                  P("GenDecl", 2, <<TK({"const"}, "TokPos", "Tok"), TP("(", "Lparen"),
                                    O(85, <<NL("ConstSpec1", "Specs"), SEMI,
                                            L("ConstSpecNS", "Specs", <<0, 1, 2, 2, 3>>, "", FALSE, "0")>>),
                                    TP(")", "Rparen")>>)>>>>,
 <<"ConstSpec1", <<P("ValueSpec", 1, <<Names1("Names"), O(40, <<N("Type", "Type")>>), T("="), Exprs1("Values")>>)>>>>,
 <<"ConstSpecNS", <<I(1, <<N("ConstSpecN", "^"), SEMI>>)>>>>,
 <<"ConstSpecN", <<P("ValueSpec", 1, <<Names1("Names")>>), I(1, <<N("ConstSpec1", "^")>>)>>>>,
 <<"TypeDecl", <<P("GenDecl", 3, <<TK({"type"}, "TokPos", "Tok"), NL("TypeSpec", "Specs")>>),
                 P("GenDecl", 1, <<TK({"type"}, "TokPos", "Tok"), TP("(", "Lparen"),
                                   L("TypeSpecS", "Specs", <<0, 1, 2, 2>>, "", FALSE, "0"), TP(")", "Rparen")>>)>>>>,
 <<"TypeSpecS", <<I(1, <<N("TypeSpec", "^"), SEMI>>)>>>>,
 <<"TypeSpec", <<P("TypeSpec", 3, <<N("Ident", "Name"), N("Type", "Type")>>),
                 P("TypeSpec", 1, <<N("Ident", "Name"), TP("=", "Assign"), N("Type", "Type")>>)>>>>,
 <<"FuncDecl", <<P("FuncDecl", 1, <<TCarry("func"), O(40, <<N("Receiver", "Recv")>>), N("Ident", "Name"),
                                  NC("Signature", "Type", "Func"), O(85, <<N("Block", "Body")>>)>>)>>>>,
 <<"Receiver", <<P("FieldList", 1, <<TP("(", "Opening"), NL("RecvField", "List"), TP(")", "Closing")>>)>>>>,
 <<"RecvField", <<P("Field", 1, <<N("Type", "Type")>>), P("Field", 2, <<NL("Ident", "Names"), N("Type", "Type")>>)>>>>,
 \* ---- signatures
 <<"Signature", <<P("FuncType", 1, <<N("Params", "Params"), O(50, <<N("Result", "Results")>>)>>)>>>>,
 <<"Params", <<P("FieldList", 1, <<TP("(", "Opening"), ParamsIn, TP(")", "Closing")>>)>>>>,
 <<"ParamList", <<I(2, <<L("AnonParam", "List", <<1, 1, 2, 3>>, ",", FALSE, "0"), O(20, <<T(","), NL("AnonVariadic", "List")>>), O(10, <<T(",")>>)>>),
                  I(1, <<NL("AnonVariadic", "List")>>),
                  I(3, <<L("ParamGroup", "List", <<1, 1, 2, 3>>, ",", FALSE, "0"), O(20, <<T(","), NL("Variadic", "List")>>), O(10, <<T(",")>>)>>),
                  I(1, <<NL("Variadic", "List")>>)>>>>,
 <<"AnonParam", <<P("Field", 1, <<NH("Type", "Type", "0")>>)>>>>,
 <<"AnonVariadic", <<P("Field", 1, <<N("EllipsisType", "Type")>>)>>>>,
 <<"ParamGroup", <<P("Field", 1, <<Names1("Names"), NH("Type", "Type", "0")>>)>>>>,
 <<"Variadic", <<P("Field", 1, <<NL("Ident", "Names"), N("EllipsisType", "Type")>>)>>>>,
 <<"EllipsisType", <<P("Ellipsis", 1, <<TP("...", "Ellipsis"), NH("Type", "Elt", "0")>>)>>>>,
 <<"Result", <<P("FieldList", 2, <<NL("ResultField", "List")>>),
               P("FieldList", 1, <<TP("(", "Opening"), O(85, <<N("ResultList", "^")>>), TP(")", "Closing")>>)>>>>,
 <<"ResultList", <<I(2, <<L("AnonParam", "List", <<1, 1, 2, 3>>, ",", FALSE, "0"), O(10, <<T(",")>>)>>),
                   I(2, <<L("ParamGroup", "List", <<1, 1, 2, 3>>, ",", FALSE, "0"), O(10, <<T(",")>>)>>)>>>>,
 <<"ResultField", <<P("Field", 1, <<N("TypeNoParen", "Type")>>)>>>>,
 \* ---- types
 <<"Type", <<I(8, <<N("TypeName", "^")>>), I(1, <<N("ParenType", "^")>>), I(3, <<N("TypeLit", "^")>>),
             I(1, <<N("RecvChanType", "^")>>)>>>>,
 <<"TypeNoParen", <<I(8, <<N("TypeName", "^")>>), I(3, <<N("TypeLit", "^")>>), I(1, <<N("RecvChanType", "^")>>)>>>>,
 <<"TypeNoArrow", <<I(8, <<N("TypeName", "^")>>), I(1, <<N("ParenType", "^")>>), I(3, <<N("TypeLit", "^")>>)>>>>,
 <<"TypeName", <<I(4, <<N("Ident", "^")>>), P("SelectorExpr", 1, <<N("Ident", "X"), T("."), N("Ident", "Sel")>>)>>>>,
 <<"ParenType", <<P("ParenExpr", 1, <<TP("(", "Lparen"), NH("Type", "X", "0"), TP(")", "Rparen")>>)>>>>,
 <<"TypeLit", <<I(2, <<N("PtrType", "^")>>), I(2, <<N("SliceType", "^")>>), I(1, <<N("ArrayType", "^")>>),
                I(2, <<N("StructType", "^")>>), I(2, <<N("FuncType", "^")>>), I(2, <<N("InterfaceType", "^")>>),
                I(2, <<N("MapType", "^")>>), I(2, <<N("ChanType", "^")>>)>>>>,
 <<"PtrType", <<P("StarExpr", 1, <<TP("*", "Star"), N("Type", "X")>>)>>>>,
 <<"SliceType", <<P("ArrayType", 1, <<TP("[", "Lbrack"), T("]"), N("Type", "Elt")>>)>>>>,
 <<"ArrayType", <<P("ArrayType", 1, <<TP("[", "Lbrack"), NH("Expr", "Len", "0"), T("]"), N("Type", "Elt")>>)>>>>,
 <<"EllipsisArrayType", <<P("ArrayType", 1, <<TP("[", "Lbrack"), N("EllipsisLen", "Len"), T("]"), N("Type", "Elt")>>)>>>>,
 <<"EllipsisLen", <<P("Ellipsis", 1, <<TP("...", "Ellipsis")>>)>>>>,
 <<"MapType", <<P("MapType", 1, <<TP("map", "Map"), T("["), NH("Type", "Key", "0"), T("]"), N("Type", "Value")>>)>>>>,
 <<"ChanType", <<P("ChanType", 2, <<TP("chan", "Begin"), C("Dir", "BOTH"), N("TypeNoArrow", "Value")>>),
                 P("ChanType", 1, <<TP("chan", "Begin"), TP("<-", "Arrow"), C("Dir", "SEND"), N("Type", "Value")>>)>>>>,
 <<"RecvChanType", <<P("ChanType", 1, <<TPP("<-", "Begin", "Arrow"), T("chan"), C("Dir", "RECV"), N("Type", "Value")>>)>>>>,
 <<"FuncType", <<P("FuncType", 1, <<TP("func", "Func"), N("Params", "Params"), O(50, <<N("Result", "Results")>>)>>)>>>>,
 <<"StructType", <<P("StructType", 1, <<TP("struct", "Struct"), N("FieldsBlock", "Fields")>>)>>>>,
 <<"FieldsBlock", <<P("FieldList", 1, <<TP("{", "Opening"), L("FieldDeclS", "List", <<0, 1, 1, 2, 3>>, "", FALSE, "0"), TP("}", "Closing")>>)>>>>,
 <<"FieldDeclS", <<I(1, <<N("FieldDecl", "^"), SEMI>>)>>>>,
 <<"FieldDecl", <<P("Field", 3, <<Names1("Names"), NH("Type", "Type", "0"), O(25, <<N("Tag", "Tag")>>)>>),
                  P("Field", 1, <<N("Embedded", "Type"), O(25, <<N("Tag", "Tag")>>)>>)>>>>,
 <<"Embedded", <<I(2, <<N("TypeName", "^")>>), P("StarExpr", 1, <<TP("*", "Star"), N("TypeName", "X")>>)>>>>,
 <<"Tag", <<P("BasicLit", 1, <<TLit({"STRING"})>>)>>>>,
 <<"InterfaceType", <<P("InterfaceType", 1, <<TP("interface", "Interface"), N("MethodsBlock", "Methods")>>)>>>>,
 <<"MethodsBlock", <<P("FieldList", 1, <<TP("{", "Opening"), L("MethodSpecS", "List", <<0, 1, 1, 2, 3>>, "", FALSE, "0"), TP("}", "Closing")>>)>>>>,
 <<"MethodSpecS", <<I(1, <<N("MethodSpec", "^"), SEMI>>)>>>>,
 <<"MethodSpec", <<P("Field", 3, <<NL("Ident", "Names"), NH("Signature", "Type", "0")>>),
                   P("Field", 2, <<N("TypeName", "Type")>>)>>>>,
 \* ---- expressions: one nonterminal per precedence level (operator precedence of the
 \* specification: 1 ||, 2 &&, 3 comparison, 4 addition, 5 multiplication; unary binds tightest)
 <<"Ident", <<P("Ident", 1, <<TS({"IDENT"}, "NamePos", "Name")>>)>>>>,
 <<"Expr", <<I(1, <<N("E1", "^")>>)>>>>,
 <<"E1", <<I(12, <<N("E2", "^")>>), P("BinaryExpr", 1, <<N("E1", "X"), TK({"||"}, "OpPos", "Op"), N("E2", "Y")>>)>>>>,
 <<"E2", <<I(12, <<N("E3", "^")>>), P("BinaryExpr", 1, <<N("E2", "X"), TK({"&&"}, "OpPos", "Op"), N("E3", "Y")>>)>>>>,
 <<"E3", <<I(10, <<N("E4", "^")>>), P("BinaryExpr", 1, <<N("E3", "X"), TK(RelOps, "OpPos", "Op"), N("E4", "Y")>>)>>>>,
 <<"E4", <<I(8, <<N("E5", "^")>>), P("BinaryExpr", 1, <<N("E4", "X"), TK(AddOps, "OpPos", "Op"), N("E5", "Y")>>)>>>>,
 <<"E5", <<I(8, <<N("U", "^")>>), P("BinaryExpr", 1, <<N("E5", "X"), TK(MulOps, "OpPos", "Op"), N("U", "Y")>>)>>>>,
 <<"U", <<I(10, <<N("Prim", "^")>>),
          P("UnaryExpr", 2, <<TK(UnOps, "OpPos", "Op"), N(IF Broken = "unaryloose" THEN "E5" ELSE "U", "X")>>),
          P("StarExpr", 1, <<TP("*", "Star"), N("U", "X")>>)>>>>,
 <<"Prim", <<I(12, <<N("Operand", "^")>>),
             P("SelectorExpr", 3, <<N("Prim", "X"), T("."), N("Ident", "Sel")>>),
             P("IndexExpr", 2, <<N("Prim", "X"), TP("[", "Lbrack"), NH("Expr", "Index", "0"), TP("]", "Rbrack")>>),
             P("SliceExpr", 1, <<N("Prim", "X"), TP("[", "Lbrack"), O(50, <<NH("Expr", "Low", "0")>>), T(":"),
                                 O(50, <<NH("Expr", "High", "0")>>), TP("]", "Rbrack")>>),
             P("SliceExpr", 1, <<N("Prim", "X"), TP("[", "Lbrack"), O(50, <<NH("Expr", "Low", "0")>>), T(":"),
                                 NH("Expr", "High", "0"), T(":"), NH("Expr", "Max", "0"), C("Slice3", "true"), TP("]", "Rbrack")>>),
             P("TypeAssertExpr", 1, <<N("Prim", "X"), T("."), TP("(", "Lparen"), NH("Type", "Type", "0"), TP(")", "Rparen")>>),
             I(3, <<N("CallX", "^")>>),
             P("CallExpr", 1, <<N("ConvType", "Fun"), TP("(", "Lparen"), NLH("Expr", "Args", "0"), O(10, <<T(",")>>), TP(")", "Rparen")>>),
             PC("CompositeLit", 1, "noh", <<N("TypeName", "Type")>> \o LitBody),
             P("CompositeLit", 1, <<N("LitType", "Type")>> \o LitBody)>>>>,
 <<"CallX", <<P("CallExpr", 1, <<N("Prim", "Fun")>> \o CallArgs)>>>>,
 <<"Arg", <<I(8, <<N("Expr", "^")>>), I(1, <<N("ArgType", "^")>>)>>>>,
 <<"ArgType", <<I(2, <<N("SliceType", "^")>>), I(1, <<N("MapType", "^")>>), I(1, <<N("ChanType", "^")>>),
                I(1, <<N("RecvChanType", "^")>>), I(1, <<N("StructType", "^")>>), I(1, <<N("InterfaceType", "^")>>),
                I(1, <<N("FuncType", "^")>>), I(1, <<N("ArrayType", "^")>>)>>>>,
 \* a conversion's type: a type that ends in a function type without result would take the
 \* parenthesized argument for its result list (the specification asks for parentheses there)
 <<"ConvType", <<P("ArrayType", 2, <<TP("[", "Lbrack"), T("]"), N("ConvElt", "Elt")>>),
                 P("MapType", 1, <<TP("map", "Map"), T("["), NH("Type", "Key", "0"), T("]"), N("ConvElt", "Value")>>),
                 P("ArrayType", 1, <<TP("[", "Lbrack"), NH("Expr", "Len", "0"), T("]"), N("ConvElt", "Elt")>>),
                 I(1, <<N("StructType", "^")>>), I(1, <<N("InterfaceType", "^")>>),
                 P("ParenExpr", 2, <<TP("(", "Lparen"), NH("ParenConvType", "X", "0"), TP(")", "Rparen")>>)>>>>,
 <<"ConvElt", <<I(6, <<N("TypeName", "^")>>), I(1, <<N("StructType", "^")>>), I(1, <<N("InterfaceType", "^")>>),
                P("StarExpr", 1, <<TP("*", "Star"), N("ConvElt", "X")>>),
                P("ArrayType", 1, <<TP("[", "Lbrack"), T("]"), N("ConvElt", "Elt")>>)>>>>,
 <<"ParenConvType", <<I(1, <<N("PtrType", "^")>>), I(1, <<N("RecvChanType", "^")>>), I(1, <<N("ChanType", "^")>>), I(1, <<N("FuncType", "^")>>)>>>>,
 <<"LitType", <<I(3, <<N("SliceType", "^")>>), I(1, <<N("ArrayType", "^")>>), I(1, <<N("EllipsisArrayType", "^")>>),
                I(2, <<N("MapType", "^")>>), I(1, <<N("StructType", "^")>>)>>>>,
 <<"Element", <<I(5, <<N("ElemValue", "^")>>), P("KeyValueExpr", 2, <<N("ElemValue", "Key"), TP(":", "Colon"), N("ElemValue", "Value")>>)>>>>,
 <<"ElemValue", <<I(5, <<N("Expr", "^")>>), P("CompositeLit", 1, LitBody)>>>>,
 <<"Operand", <<I(8, <<N("Ident", "^")>>), I(5, <<N("BasicLit", "^")>>),
                P("ParenExpr", 2, <<TP("(", "Lparen"), NH("Expr", "X", "0"), TP(")", "Rparen")>>),
                P("FuncLit", 1, <<NH("FuncType", "Type", "0"), NH("Block", "Body", "0")>>)>>>>,
 <<"BasicLit", <<P("BasicLit", 1, <<TLit({"INT"})>>), P("BasicLit", 1, <<TLit({"INT", "FLOAT", "IMAG", "CHAR", "STRING"})>>)>>>>,
 \* ---- statements; StmtS = a statement together with its terminator
 <<"StmtS", <<I(10, <<N("SimpleStmt", "^"), SEMI>>),
              I(2, <<N("DeclStmt", "^"), SEMI>>),
              I(1, <<N("GoDefer", "^"), SEMI>>),
              I(2, <<N("ReturnStmt", "^"), SEMI>>),
              I(1, <<N("BranchStmt", "^"), SEMI>>),
              I(1, <<N("Block", "^"), SEMI>>),
              I(3, <<N("IfStmt", "^"), SEMI>>),
              I(2, <<N("SwitchStmt", "^"), SEMI>>),
              I(1, <<N("TypeSwitchStmt", "^"), SEMI>>),
              I(1, <<N("SelectStmt", "^"), SEMI>>),
              I(2, <<N("ForStmt", "^"), SEMI>>),
              I(2, <<N("RangeStmt", "^"), SEMI>>),
              P("EmptyStmt", 1, <<TP(";", "Semicolon")>>),
              P("LabeledStmt", 1, <<N("Ident", "Label"), TP(":", "Colon"), N("StmtS", "Stmt")>>)>>>>,
 <<"SimpleStmt", <<I(4, <<N("ExprStmt", "^")>>),
                   P("SendStmt", 1, <<N("Expr", "Chan"), TP("<-", "Arrow"), N("Expr", "Value")>>),
                   P("IncDecStmt", 1, <<N("Expr", "X"), TK({"++", "--"}, "TokPos", "Tok")>>),
                   P("AssignStmt", 3, <<Exprs1("Lhs"), TK({"="}, "TokPos", "Tok"), Exprs1("Rhs")>>),
                   P("AssignStmt", 1, <<NL("Expr", "Lhs"), TK(OpAssignOps, "TokPos", "Tok"), NL("Expr", "Rhs")>>),
                   P("AssignStmt", 3, <<Names1("Lhs"), TK({":="}, "TokPos", "Tok"), Exprs1("Rhs")>>)>>>>,
 <<"ExprStmt", <<P("ExprStmt", 1, <<N("Expr", "X")>>)>>>>,
 <<"DeclStmt", <<P("DeclStmt", 1, <<N("Decl", "Decl")>>)>>>>,
 <<"GoDefer", <<P("GoStmt", 1, <<TP("go", "Go"), N("CallX", "Call")>>), P("DeferStmt", 1, <<TP("defer", "Defer"), N("CallX", "Call")>>)>>>>,
 <<"ReturnStmt", <<P("ReturnStmt", 1, <<TP("return", "Return"), O(60, <<Exprs1("Results")>>)>>)>>>>,
 <<"BranchStmt", <<P("BranchStmt", 2, <<TK({"break", "continue"}, "TokPos", "Tok"), O(40, <<N("Ident", "Label")>>)>>),
                   P("BranchStmt", 1, <<TK({"goto"}, "TokPos", "Tok"), N("Ident", "Label")>>)>>>>,
 <<"Block", <<P("BlockStmt", 1, <<TP("{", "Lbrace"), Stmts("List"), O(4, <<NL("LabelEnd", "List")>>), TP("}", "Rbrace")>>)>>>>,
 <<"LabelEnd", <<P("LabeledStmt", 3, <<N("Ident", "Label"), TP(":", "Colon"), N("ImplicitEmpty", "Stmt")>>),
                 P("LabeledStmt", 1, <<N("Ident", "Label"), TP(":", "Colon"), N("LabelEnd", "Stmt")>>)>>>>,
 <<"ImplicitEmpty", <<P("EmptyStmt", 1, <<Z("Semicolon"), C("Implicit", "true")>>)>>>>,
 <<"IfStmt", <<P("IfStmt", 1, <<TP("if", "If"), HdrInit, NH("Expr", "Cond", "1"), NH("Block", "Body", "0"),
                              O(40, <<T("else"), NH("ElseBranch", "Else", "0")>>)>>)>>>>,
 <<"ElseBranch", <<I(1, <<N("Block", "^")>>), I(1, <<N("IfStmt", "^")>>)>>>>,
 <<"SwitchStmt", <<P("SwitchStmt", 1, <<TP("switch", "Switch"), HdrInit, O(70, <<NH("Expr", "Tag", "1")>>), NH("CaseBlock", "Body", "0")>>)>>>>,
 <<"CaseBlock", <<P("BlockStmt", 1, <<TP("{", "Lbrace"), L("CaseClause", "List", <<0, 1, 2, 2, 3>>, "", FALSE, "0"), TP("}", "Rbrace")>>)>>>>,
 <<"CaseClause", <<P("CaseClause", 1, <<TP("default", "Case"), TP(":", "Colon"), Stmts("Body")>>),
                   P("CaseClause", 3, <<TP("case", "Case"), Exprs1("List"), TP(":", "Colon"), Stmts("Body"),
                                        O(10, <<NL("Fallthrough", "Body"), SEMI>>)>>)>>>>,
 <<"Fallthrough", <<P("BranchStmt", 1, <<TK({"fallthrough"}, "TokPos", "Tok")>>)>>>>,
 <<"TypeSwitchStmt", <<P("TypeSwitchStmt", 1, <<TP("switch", "Switch"), HdrInit, N("TSGuard", "Assign"), NH("TypeCaseBlock", "Body", "0")>>)>>>>,
 <<"TSGuard", <<P("ExprStmt", 1, <<N("TSAssert", "X")>>),
                P("AssignStmt", 1, <<NL("Ident", "Lhs"), TK({":="}, "TokPos", "Tok"), NL("TSAssert", "Rhs")>>)>>>>,
 <<"TSAssert", <<P("TypeAssertExpr", 1, <<NH("Prim", "X", "1"), T("."), TP("(", "Lparen"), T("type"), TP(")", "Rparen")>>)>>>>,
 <<"TypeCaseBlock", <<P("BlockStmt", 1, <<TP("{", "Lbrace"), L("TypeCaseClause", "List", <<0, 1, 2, 2, 3>>, "", FALSE, "0"), TP("}", "Rbrace")>>)>>>>,
 <<"TypeCaseClause", <<P("CaseClause", 1, <<TP("default", "Case"), TP(":", "Colon"), Stmts("Body")>>),
                       P("CaseClause", 3, <<TP("case", "Case"), L("Type", "List", <<1, 1, 2, 3>>, ",", FALSE, "0"), TP(":", "Colon"), Stmts("Body")>>)>>>>,
 <<"SelectStmt", <<P("SelectStmt", 1, <<TP("select", "Select"), N("CommBlock", "Body")>>)>>>>,
 <<"CommBlock", <<P("BlockStmt", 1, <<TP("{", "Lbrace"), L("CommClause", "List", <<0, 1, 2, 2, 3>>, "", FALSE, "0"), TP("}", "Rbrace")>>)>>>>,
 <<"CommClause", <<P("CommClause", 1, <<TP("default", "Case"), TP(":", "Colon"), Stmts("Body")>>),
                   P("CommClause", 3, <<TP("case", "Case"), N("CommStmt", "Comm"), TP(":", "Colon"), Stmts("Body")>>)>>>>,
 <<"CommStmt", <<P("ExprStmt", 2, <<N("RecvExpr", "X")>>),
                 P("SendStmt", 2, <<N("Expr", "Chan"), TP("<-", "Arrow"), N("Expr", "Value")>>),
                 P("AssignStmt", 1, <<Exprs12("Lhs"), TK({"="}, "TokPos", "Tok"), NL("RecvExpr", "Rhs")>>),
                 P("AssignStmt", 2, <<Idents12("Lhs"), TK({":="}, "TokPos", "Tok"), NL("RecvExpr", "Rhs")>>)>>>>,
 <<"RecvExpr", <<P("UnaryExpr", 1, <<TK({"<-"}, "OpPos", "Op"), N("U", "X")>>)>>>>,
 <<"ForStmt", <<P("ForStmt", 1, <<TP("for", "For"), NH("Block", "Body", "0")>>),
                P("ForStmt", 2, <<TP("for", "For"), NH("Expr", "Cond", "1"), NH("Block", "Body", "0")>>),
                P("ForStmt", 3, <<TP("for", "For"), O(70, <<NH("SimpleStmt", "Init", "1")>>), T(";"),
                                  O(70, <<NH("Expr", "Cond", "1")>>), T(";"),
                                  O(70, <<NH("SimpleStmt", "Post", "1")>>), NH("Block", "Body", "0")>>)>>>>,
 <<"RangeStmt", <<P("RangeStmt", 1, <<TP("for", "For"), TP("range", "Range"), NH("Expr", "X", "1"), NH("Block", "Body", "0")>>),
                  P("RangeStmt", 1, <<TP("for", "For"), NH("Expr", "Key", "1"), O(50, <<T(","), NH("Expr", "Value", "1")>>),
                                      TK({"="}, "TokPos", "Tok"), TP("range", "Range"), NH("Expr", "X", "1"), NH("Block", "Body", "0")>>),
                  P("RangeStmt", 2, <<TP("for", "For"), N("Ident", "Key"), O(50, <<T(","), N("Ident", "Value")>>),
                                      TK({":="}, "TokPos", "Tok"), TP("range", "Range"), NH("Expr", "X", "1"), NH("Block", "Body", "0")>>)>>>>
>>

NTs == {GrammarSeq[i][1] : i \in 1..Len(GrammarSeq)}
Grammar == [nt \in NTs |-> GrammarSeq[CHOOSE i \in 1..Len(GrammarSeq) : GrammarSeq[i][1] = nt][2]]
\* weighted index set of a nonterminal's productions (for random choice)
Weighted == [nt \in NTs |-> [hh \in BOOLEAN |->
               UNION {{<<i, j>> : j \in 1..Grammar[nt][i].w} :
                      i \in {x \in 1..Len(Grammar[nt]) : ~(hh /\ Grammar[nt][x].c = "noh")}}]]

----------------------------------------------------------------------------
(* The derivation machine *)
Pick(S) == IF RandPick THEN {RandomElement(S)} ELSE S
Pct(p)  == IF RandPick THEN {RandomElement(1..100) <= p} ELSE BOOLEAN

Top == stk[Len(stk)]
Rest == SubSeq(stk, 1, Len(stk) - 1)
SetTop(fr) == stk' = Append(Rest, fr)
It == Top.its[1]

Spellings(k) == IF k \in SpellClasses
                THEN (IF RandPick THEN 1..Len(Spell[k]) ELSE 1..(IF MaxSpell < Len(Spell[k]) THEN MaxSpell ELSE Len(Spell[k])))
                ELSE {0}
SpellOf(k, si) == IF si = 0 THEN FixedSpell[k] ELSE Spell[k][si]

\* separators admissible in front of terminal k
SepFits(sp, k, nlOk, nlReq) ==
    /\ (sp.txt = <<>> => TouchOK(g.last, k))
    /\ (sp.nl => nlOk) /\ (nlReq => sp.nl)
    /\ (sp.cm => g.last # "/")
SepsFor(k) ==
    LET nlOk  == (~g.semi) \/ g.pend
        nlReq == g.pend /\ k \notin Closers
    IN IF CanonSep
       THEN {CHOOSE x \in 1..Len(Seps) : SepFits(Seps[x], k, nlOk, nlReq)
                                         /\ \A y \in 1..(x - 1) : ~SepFits(Seps[y], k, nlOk, nlReq)}
       ELSE {x \in 1..Len(Seps) : SepFits(Seps[x], k, nlOk, nlReq)}

\* append one token (terminal k, spelling si, separator xi); returns the new toks and g
Emit(k, si, xi) ==
    LET o == g.pos + Len(Seps[xi].txt)
        e == o + Len(SpellOf(k, si))
    IN [toks |-> Append(toks, [k |-> k, si |-> si, xi |-> xi, o |-> o, e |-> e]),
        g    |-> [g EXCEPT !.pos = e, !.semi = (k \in SemiKinds), !.pend = FALSE, !.last = k]]

Entry(f, gk, v) == [f |-> f, g |-> gk, v |-> v]
RECURSIVE Bind(_, _, _)
Bind(fs, b, idx) == IF b = <<>> THEN fs
                    ELSE Bind(IF b[1][2] = "carry" THEN Append(fs, Entry("", "t", idx))
                              ELSE Append(fs, Entry(b[1][1], b[1][2], idx)), Tail(b), idx)

\* terminal item
StepT ==
    /\ It.t = "T"
    /\ \E k \in Pick(It.ts) : \E si \in Pick(Spellings(k)) : \E xi \in Pick(SepsFor(k)) :
         LET r   == Emit(k, si, xi)
             idx == Len(r.toks)
             fr  == Top
             carried == \E n \in 1..Len(It.b) : It.b[n][2] = "carry"
             fs2 == IF It.b = <<>> THEN Append(fr.fs, Entry("", "t", idx)) ELSE Bind(fr.fs, It.b, idx)
         IN /\ toks' = r.toks /\ g' = r.g
            /\ SetTop([fr EXCEPT !.its = Tail(@), !.fs = fs2,
                                 !.ti = IF @ = 0 THEN idx ELSE @,
                                 !.le = IF Broken = "noend" /\ fr.k = "CallExpr" THEN @ ELSE <<idx, 1>>,
                                 !.carry = IF carried THEN idx ELSE @])
    /\ UNCHANGED out

\* statement terminator: written now, or left pending (newline / omission decided at the next token)
StepS ==
    /\ It.t = "S"
    /\ \E now \in Pct(35) :
         IF now
         THEN \E xi \in Pick(SepsFor(";")) :
                LET r == Emit(";", 0, xi) IN
                /\ toks' = r.toks /\ g' = r.g
                /\ SetTop([Top EXCEPT !.its = Tail(@), !.fs = Append(@, Entry("", "t", Len(r.toks)))])
         ELSE /\ g' = [g EXCEPT !.pend = TRUE]
              /\ SetTop([Top EXCEPT !.its = Tail(@)])
              /\ UNCHANGED toks
    /\ UNCHANGED out

StepC ==
    /\ It.t = "C"
    /\ SetTop([Top EXCEPT !.its = Tail(@), !.fs = Append(@, Entry(It.f, "c", It.v))])
    /\ UNCHANGED <<toks, g, out>>

\* zero-width node standing at the next token
StepZ ==
    /\ It.t = "Z"
    /\ SetTop([Top EXCEPT !.its = Tail(@), !.fs = Append(@, Entry(It.f, "p", Len(toks) + 1)),
                          !.ti = Len(toks) + 1, !.le = <<Len(toks) + 1, 0>>])
    /\ UNCHANGED <<toks, g, out>>

StepO ==
    /\ It.t = "O"
    /\ \E yes \in (IF g.bud <= 0 THEN {FALSE} ELSE Pct(It.pct)) :
         SetTop([Top EXCEPT !.its = IF yes THEN It.its \o Tail(@) ELSE Tail(@)])
    /\ UNCHANGED <<toks, g, out>>

\* n elements of a list, separated by the list's separator
RECURSIVE Elems(_, _)
Elems(it, n) == IF n = 0 THEN <<>>
                ELSE <<[t |-> "N", nt |-> it.nt, f |-> it.f, l |-> TRUE, h |-> it.h, cf |-> ""]>>
                     \o (IF n > 1 /\ it.sep # "" THEN <<T(it.sep)>> ELSE <<>>) \o Elems(it, n - 1)
MinOf(ns) == CHOOSE n \in {ns[i] : i \in 1..Len(ns)} : \A i \in 1..Len(ns) : n <= ns[i]
StepL ==
    /\ It.t = "L"
    /\ \E n \in (IF g.bud <= 0 THEN {MinOf(It.ns)}
                 ELSE IF RandPick THEN {It.ns[RandomElement(1..Len(It.ns))]}
                 ELSE {It.ns[i] : i \in 1..Len(It.ns)}) :
       \E tr \in (IF It.trail /\ n > 0 THEN Pct(15) ELSE {FALSE}) :
         SetTop([Top EXCEPT !.its = Elems(It, n) \o (IF tr THEN <<T(It.sep)>> ELSE <<>>) \o Tail(@)])
    /\ UNCHANGED <<toks, g, out>>

\* nonterminal item: choose a production; an inline production is spliced into the frame,
\* any other pushes a frame (= one more node)
HeaderOf(it) == IF it.h = "k" THEN Top.h ELSE it.h = "1"
Rebind(its, it) ==
    [n \in 1..Len(its) |->
        IF its[n].t \in {"N", "L"}
        THEN (IF its[n].t = "N" /\ its[n].f = "^"
              THEN [its[n] EXCEPT !.f = it.f, !.l = it.l, !.h = IF @ = "k" THEN it.h ELSE @,
                                  !.cf = IF @ = "" THEN it.cf ELSE @]
              ELSE [its[n] EXCEPT !.h = IF @ = "k" THEN it.h ELSE @])
        ELSE its[n]]
Prods(nt, hh) == IF g.bud <= 0 THEN {1}
                 ELSE IF RandPick THEN {RandomElement(Weighted[nt][hh])[1]}
                 ELSE {i \in 1..Len(Grammar[nt]) : ~(hh /\ Grammar[nt][i].c = "noh")}
StepN ==
    /\ It.t = "N"
    /\ \E pi \in Prods(It.nt, HeaderOf(It)) :
         LET p == Grammar[It.nt][pi] IN
         IF p.k = ""
         THEN /\ SetTop([Top EXCEPT !.its = Rebind(p.its, It) \o Tail(@)])
              /\ UNCHANGED g
         ELSE /\ stk' = Append(Append(Rest, [Top EXCEPT !.its = Tail(@)]),
                   [k |-> p.k, its |-> p.its,
                    fs |-> IF It.cf = "" THEN <<>> ELSE <<Entry(It.cf, "pc", Top.carry)>>,
                    ti |-> IF It.cf = "" THEN 0 ELSE Top.carry, le |-> <<0, 0>>,
                    h |-> HeaderOf(It), f |-> It.f, l |-> It.l, carry |-> 0])
              /\ g' = [g EXCEPT !.bud = @ - 1]
    /\ UNCHANGED <<toks, out>>

\* all items derived: the node is finished and becomes a field of its parent
Node(fr) == [k |-> fr.k, fs |-> fr.fs, ti |-> fr.ti, le |-> fr.le]
StepPop ==
    /\ Top.its = <<>>
    /\ IF Len(stk) = 1
       THEN /\ out' = Node(Top) /\ stk' = <<>>
       ELSE LET par == stk[Len(stk) - 1]
                nd  == Node(Top)
            IN /\ stk' = Append(SubSeq(stk, 1, Len(stk) - 2),
                    [par EXCEPT !.fs = Append(@, Entry(Top.f, IF Top.l THEN "l" ELSE "n", nd)),
                                !.ti = IF @ = 0 THEN nd.ti ELSE @,
                                !.le = nd.le])
               /\ UNCHANGED out
    /\ UNCHANGED <<toks, g>>

\* the end of the text: a separator (a pending terminator needs nothing at the end of input)
StepFinish ==
    /\ stk = <<>> /\ ~g.done
    /\ \E xi \in Pick(IF CanonSep THEN {1} ELSE 1..Len(FinalSeps)) :
         g' = [g EXCEPT !.done = TRUE, !.fin = xi, !.pos = @ + Len(FinalSeps[xi].txt)]
    /\ UNCHANGED <<stk, toks, out>>

RECURSIVE Burn(_)
Burn(n) == IF n = 0 THEN 0 ELSE RandomElement(0..9) + Burn(n - 1)
StepSalt ==
    /\ g.salt > 0 /\ Burn(g.salt) >= 0
    /\ g' = [g EXCEPT !.salt = 0]
    /\ UNCHANGED <<stk, toks, out>>

Init == /\ toks = <<>> /\ out = <<>>
        /\ \E sb \in Starts : \E salt \in (IF Salts = 0 THEN {0} ELSE 1..Salts) :
             /\ g = [pos |-> 0, semi |-> FALSE, pend |-> FALSE, last |-> "", bud |-> sb[2], done |-> FALSE, fin |-> 0,
                     start |-> sb[1], salt |-> salt]
             /\ stk = <<[k |-> "", its |-> <<N(sb[1], "Root")>>, fs |-> <<>>, ti |-> 0, le |-> <<0, 0>>,
                         h |-> FALSE, f |-> "", l |-> FALSE, carry |-> 0]>>

Next == \/ StepSalt
        \/ /\ g.salt = 0 /\ stk # <<>> /\ Top.its # <<>>
           /\ (StepT \/ StepS \/ StepC \/ StepZ \/ StepO \/ StepL \/ StepN)
        \/ /\ g.salt = 0 /\ stk # <<>> /\ StepPop
        \/ StepFinish
Spec == Init /\ [][Next]_vars

Done == g.done
\* the root frame is a wrapper whose only field is the start symbol's node
Root == out.fs[1].v

----------------------------------------------------------------------------
(* (M) Properties of finished derivations *)
Off(pr) == IF pr[2] = 0 THEN toks[pr[1]].o ELSE toks[pr[1]].e
NodeS(n) == toks[n.ti].o
NodeE(n) == Off(n.le)
IsChild(en) == en.g \in {"n", "l"}

\* the text: separators and spellings in order
RECURSIVE TextFrom(_)
TextFrom(i) == IF i > Len(toks) THEN FinalSeps[g.fin].txt
               ELSE Seps[toks[i].xi].txt \o SpellOf(toks[i].k, toks[i].si) \o TextFrom(i + 1)
Text == TextFrom(1)

\* offsets: every token's extent holds its spelling, extents increase
TokensOK ==
    Done =>
    LET tx == Text IN
    /\ Len(tx) = g.pos
    /\ \A i \in 1..Len(toks) :
         /\ toks[i].o < toks[i].e
         /\ SubSeq(tx, toks[i].o + 1, toks[i].e) = SpellOf(toks[i].k, toks[i].si)
         /\ (i > 1 => toks[i - 1].e <= toks[i].o)

\* yield: the tokens claimed by the nodes, in tree order, are exactly the token list
RECURSIVE Yield(_), YieldFs(_, _)
YieldFs(fs, i) == IF i > Len(fs) THEN <<>>
                  ELSE LET en == fs[i]
                           me == IF IsChild(en) THEN Yield(en.v)
                                 ELSE IF en.g \in {"p", "t"} /\ ~(i > 1 /\ fs[i - 1].g \in {"p", "t"} /\ fs[i - 1].v = en.v)
                                           /\ ~(en.g = "p" /\ en.v > Len(toks))
                                 THEN <<en.v>> ELSE <<>>
                       IN me \o YieldFs(fs, i + 1)
Yield(n) == IF n.k = "EmptyStmt" /\ n.le[2] = 0 THEN <<>> ELSE YieldFs(n.fs, 1)
YieldOK == Done => Yield(Root) = [i \in 1..Len(toks) |-> i]

\* extents: a node starts at its first token and ends with its last (a zero-width node stands
\* at the following token); children lie inside their parent, in order; position attributes
\* lie inside the node
RECURSIVE WellFormed(_)
WellFormed(n) ==
    LET ch == SelectSeq(n.fs, IsChild)
        zero == n.le[2] = 0
        split == \E i \in 1..Len(n.fs) : n.fs[i].g = "pc"          \* FuncType of a FuncDecl
        hasSplit == \E i \in 1..Len(ch) : \E j \in 1..Len(ch[i].v.fs) : ch[i].v.fs[j].g = "pc"
    IN /\ n.ti >= 1 /\ n.ti <= Len(toks) /\ n.le[1] >= 1 /\ n.le[1] <= Len(toks)
       /\ NodeS(n) <= NodeE(n)
       /\ (~zero /\ ~split /\ n.k # "LabeledStmt") =>
             (LET y == Yield(n) IN y # <<>> /\ n.ti = y[1]
                                   /\ \E i \in 1..Len(y) : y[i] = n.le[1])
       /\ \A i \in 1..Len(n.fs) : n.fs[i].g = "p" => NodeS(n) <= toks[n.fs[i].v].o /\ toks[n.fs[i].v].o <= NodeE(n)
       /\ \A i \in 1..Len(ch) : NodeS(n) <= NodeS(ch[i].v) /\ NodeE(ch[i].v) <= NodeE(n)
       /\ (~hasSplit => \A i \in 1..(Len(ch) - 1) : NodeE(ch[i].v) <= NodeS(ch[i + 1].v))
       /\ \A i \in 1..Len(ch) : WellFormed(ch[i].v)
TreeOK == Done => WellFormed(Root)

\* precedence and associativity: the tree the layered grammar derives for an operator
\* expression equals the tree that precedence climbing (the specification's operator table)
\* builds from the flat sequence of its operands and operators
Prec(op) == CASE op = "||" -> 1 [] op = "&&" -> 2
              [] op \in {"==", "!=", "<", "<=", ">", ">="} -> 3
              [] op \in {"+", "-", "|", "^"} -> 4
              [] OTHER -> 5
FieldOf(n, f) == n.fs[CHOOSE i \in 1..Len(n.fs) : n.fs[i].f = f /\ n.fs[i].g \in {"n", "l", "k", "p"}]
OpOf(n) == toks[FieldOf(n, IF n.k = "StarExpr" THEN "Star" ELSE "OpPos").v].k
IsOpNode(n) == n.k \in {"BinaryExpr", "UnaryExpr", "StarExpr"}
\* flat sequence: <<"a", first token of the operand>> operand, <<"b", op>> binary operator, <<"u", op>> unary operator
RECURSIVE Flatten(_)
Flatten(n) == IF n.k = "BinaryExpr" THEN Flatten(FieldOf(n, "X").v) \o <<<<"b", OpOf(n)>>>> \o Flatten(FieldOf(n, "Y").v)
              ELSE IF n.k \in {"UnaryExpr", "StarExpr"} THEN <<<<"u", OpOf(n)>>>> \o Flatten(FieldOf(n, "X").v)
              ELSE <<<<"a", n.ti>>>>
\* shape of a tree: operators and operand identities (operands are compared by their first token)
RECURSIVE Shape(_)
Shape(n) == IF n.k = "BinaryExpr" THEN <<"b", OpOf(n), Shape(FieldOf(n, "X").v), Shape(FieldOf(n, "Y").v)>>
            ELSE IF n.k \in {"UnaryExpr", "StarExpr"} THEN <<"u", OpOf(n), Shape(FieldOf(n, "X").v)>>
            ELSE <<"a", n.ti>>
\* precedence climbing over a flat sequence s from index i: returns <<shape, next index>>
RECURSIVE ClimbU(_, _), ClimbB(_, _, _), ClimbLoop(_, _, _, _)
ClimbU(s, i) == IF s[i][1] = "u" THEN LET r == ClimbU(s, i + 1) IN <<<<"u", s[i][2], r[1]>>, r[2]>>
                ELSE <<<<"a", s[i][2]>>, i + 1>>
ClimbLoop(s, x, i, p1) ==
    IF i <= Len(s) /\ s[i][1] = "b" /\ Prec(s[i][2]) >= p1
    THEN LET r == ClimbB(s, i + 1, Prec(s[i][2]) + 1)
         IN ClimbLoop(s, <<"b", s[i][2], x, r[1]>>, r[2], p1)
    ELSE <<x, i>>
ClimbB(s, i, p1) == LET u == ClimbU(s, i) IN ClimbLoop(s, u[1], u[2], p1)
RECURSIVE PrecOK(_, _)
PrecOK(n, parentIsOp) ==
    /\ (IsOpNode(n) /\ ~parentIsOp) => ClimbB(Flatten(n), 1, 1)[1] = Shape(n)
    /\ \A i \in 1..Len(n.fs) : IsChild(n.fs[i]) => PrecOK(n.fs[i].v, IsOpNode(n))
PrecAgree == Done => PrecOK(Root, FALSE)

----------------------------------------------------------------------------
(* (R) emission: one finished derivation as one flat sequence of integers                  *)
(*   <<start nonterminal, top-level statement starts with func (0/1), final separator,      *)
(*     number of tokens>> \o tokens <<kind, spelling, separator, o, e>>                     *)
(*   \o tree;  a node is <<kind, ti, le[1], le[2], number of fields>> \o fields;            *)
(*   a field is <<name, tag, value>>: tag 0 position (token index), 1 token kind (token     *)
(*   index), 2 spelling (token index), 3 constant (name), 4 child node, 5 list element,     *)
(*   6 position handed down by the parent (token index).  Unbound terminals are left out.   *)
RECURSIVE SetToSeq(_)
SetToSeq(S) == IF S = {} THEN <<>> ELSE LET x == CHOOSE y \in S : TRUE IN <<x>> \o SetToSeq(S \ {x})
ItemNames(its) == UNION {
    IF its[i].t = "T" THEN its[i].ts \cup {its[i].b[j][1] : j \in 1..Len(its[i].b)}
    ELSE IF its[i].t = "N" THEN {its[i].f, its[i].cf}
    ELSE IF its[i].t = "L" THEN {its[i].f} \cup (IF its[i].sep # "" THEN {its[i].sep} ELSE {})
    ELSE IF its[i].t = "C" THEN {its[i].f, its[i].v}
    ELSE IF its[i].t = "Z" THEN {its[i].f}
    ELSE {} : i \in 1..Len(its)}
RECURSIVE AllItems(_)
AllItems(its) == IF its = <<>> THEN <<>>
                 ELSE (IF its[1].t = "O" THEN AllItems(its[1].its) ELSE <<its[1]>>) \o AllItems(Tail(its))
NameSet == UNION {UNION {{Grammar[nt][i].k} \cup ItemNames(AllItems(Grammar[nt][i].its)) : i \in 1..Len(Grammar[nt])} : nt \in NTs}
           \cup FixedNames \cup SpellClasses \cup {"Root", ""} \cup NTs
NameSeq == SetToSeq(NameSet)
NameIdx == [s \in NameSet |-> CHOOSE i \in 1..Len(NameSeq) : NameSeq[i] = s]
TagOf(gk) == CASE gk = "p" -> 0 [] gk = "k" -> 1 [] gk = "s" -> 2 [] gk = "c" -> 3 [] gk = "n" -> 4 [] gk = "l" -> 5 [] gk = "pc" -> 6
RECURSIVE FlatNode(_), FlatFs(_, _)
FlatFs(fs, i) == IF i > Len(fs) THEN <<>>
                 ELSE LET en == fs[i]
                      IN (IF en.g = "t" THEN <<>>
                          ELSE IF IsChild(en) THEN <<NameIdx[en.f], TagOf(en.g)>> \o FlatNode(en.v)
                          ELSE IF en.g = "c" THEN <<NameIdx[en.f], 3, NameIdx[en.v]>>
                          ELSE <<NameIdx[en.f], TagOf(en.g), en.v>>) \o FlatFs(fs, i + 1)
FlatNode(n) == <<NameIdx[n.k], n.ti, n.le[1], n.le[2], Len(SelectSeq(n.fs, LAMBDA en : en.g # "t"))>> \o FlatFs(n.fs, 1)
RECURSIVE FlatToks(_)
FlatToks(i) == IF i > Len(toks) THEN <<>>
               ELSE <<NameIdx[toks[i].k], toks[i].si, toks[i].xi, toks[i].o, toks[i].e>> \o FlatToks(i + 1)
\* gomacro reads a top-level statement that starts with the keyword func as a declaration
\* (documented): such derivations are flagged and lie outside properties C24 / C25
TopItems == LET fs == SelectSeq(Root.fs, IsChild) IN [i \in 1..Len(fs) |-> fs[i].v]
FuncAtTop == Root.k = "Top" /\ \E i \in 1..Len(TopItems) : TopItems[i].k # "FuncDecl" /\ toks[TopItems[i].ti].k = "func"
Flat == <<NameIdx[g.start], IF FuncAtTop THEN 1 ELSE 0, g.fin, Len(toks)>> \o FlatToks(1) \o FlatNode(Root)
Emit1 == IF EmitOn /\ Done THEN PrintT(ToString(Flat)) ELSE TRUE
ASSUME EmitOn => PrintT(ToJson([names |-> NameSeq]))
=============================================================================

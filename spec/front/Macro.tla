------------------------------- MODULE Macro -------------------------------
(***************************************************************************)
(* C20: macro expansion rewrites exactly the macro calls and leaves other  *)
(* code unchanged (fast/macroexpand.go, classic/macroexpand.go,            *)
(* base/quasiquote.go UnwrapTrivialAst, ast2).                             *)
(*                                                                         *)
(* Go-level meaning (the property):                                        *)
(*   Expand1  scans a list (block / return results / expression list) left *)
(*            to right; a macro NAME consumes exactly `arity` following    *)
(*            forms and is replaced by its results in order (a block       *)
(*            result is spliced, no result vanishes); too few forms left   *)
(*            is an error.                                                 *)
(*   Expand   repeats Expand1 while something expanded.                    *)
(*   Codewalk pre-order over the whole tree: Expand at every level whose   *)
(*            quasiquote depth is <= 0 (quote opaque at depth 0,           *)
(*            quasiquote +1, unquote / unquote_splice -1), then the        *)
(*            children.                                                    *)
(* Results are compared modulo Normalize = UnwrapTrivial applied at every  *)
(* node: the documented removal of trivial wrappers (parentheses, one-     *)
(* element blocks that do not hold a declaration, empty statements).       *)
(* WalkRebuild is the wrapper-level mechanism on macro-free code: every    *)
(* child is unwrapped, walked and stored back through its typed slot.      *)
(*                                                                         *)
(* Sem(V) is the meaning with the deviations named in V switched on. The   *)
(* property is Sem({}). Deviations are used (a) as broken variants that    *)
(* the laws below must reject (constant Broken), (b) to name the shape of  *)
(* a disagreement found on the real code (the record carries the outcome   *)
(* of every deviation that changes the result).                            *)
(***************************************************************************)
EXTENDS Forms

CONSTANTS Tables,     \* sequence of [sel, calls]: macros declared / names the generator places
          Broken,     \* deviation set switched on in the PROPERTY itself: {} = the property;
                      \* {"skip+1"}, {"inquote"} ... = broken variants for the self-test
          EmitOn,     \* TRUE: print one JSON record per generated form
          Fuel        \* bound on Expand iterations (divergence detector)

VARIABLES tb          \* index into Tables

vars == <<tree, n, calls, tb>>

Param(i) == Node("param", i, <<>>)
Err      == Node("error", "", <<>>)       \* "not enough arguments for macroexpansion"
Diverge  == Node("diverge", "", <<>>)     \* Expand did not terminate within Fuel
IsBad(t) == t.k \in {"error", "diverge"}

(* The macro catalogue: result template over the parameters.
   mode "nil": returns nothing; "vals": one result per template element (several return
   values); "qq": the elements are the body of ONE quasiquote (a single element is the
   result itself, several make a block - which expansion splices).                      *)
Catalogue == <<
  [name |-> "Z0", arity |-> 0, mode |-> "nil",  tmpl |-> <<>>],
  [name |-> "Q0", arity |-> 0, mode |-> "vals", tmpl |-> <<Id("c")>>],
  [name |-> "P1", arity |-> 1, mode |-> "vals", tmpl |-> <<Param("1")>>],
  [name |-> "S2", arity |-> 2, mode |-> "vals", tmpl |-> <<Param("2")>>],
  [name |-> "L2", arity |-> 2, mode |-> "vals", tmpl |-> <<Param("2"), Param("1")>>],
  [name |-> "B2", arity |-> 2, mode |-> "qq",   tmpl |-> <<Param("2"), Id("c"), Param("1")>>],
  [name |-> "N1", arity |-> 1, mode |-> "qq",   tmpl |-> <<Id("P1"), Param("1")>>],
  [name |-> "W2", arity |-> 2, mode |-> "qq",   tmpl |-> <<Node("if", "", <<Nil, Param("1"), Block(<<Param("2")>>), Nil>>)>>],
  [name |-> "T3", arity |-> 3, mode |-> "vals", tmpl |-> <<Param("3"), Param("1")>>],
  [name |-> "D1", arity |-> 1, mode |-> "vals", tmpl |-> <<Param("1"), Param("1")>>],
  [name |-> "R1", arity |-> 1, mode |-> "qq",   tmpl |-> <<Node("ret", "", <<Param("1")>>)>>],
  [name |-> "K0", arity |-> 0, mode |-> "qq",   tmpl |-> <<Id("Z0")>>],
  [name |-> "X1", arity |-> 1, mode |-> "qq",   tmpl |-> <<Id("X1"), Param("1")>>] >>

Cat(name) == CHOOSE m \in SeqSet(Catalogue) : m.name = name
CatNames  == {Catalogue[i].name : i \in 1..Len(Catalogue)}
CallsOf(names) == [i \in 1..Len(names) |-> [name |-> names[i],
                                           arity |-> IF names[i] \in CatNames THEN Cat(names[i]).arity ELSE 1,
                                           xargs |-> names[i] \in {"W2", "R1"}]]

Sel == SeqSet(Tables[tb].sel)  \* names declared as macros in this behaviour

---------------------------------------------------------------------------
(* trivial wrappers: base/quasiquote.go unwrapTrivialAst2 *)

IsDefine(t) == t.k = "assign" /\ t.a = ":="

RECURSIVE UnwrapTrivial(_)
UnwrapTrivial(t) ==
    IF t.k = "paren" THEN UnwrapTrivial(t.c[1])
    ELSE IF t.k = "block" /\ Len(t.c) = 1 /\ ~IsDefine(t.c[1]) THEN UnwrapTrivial(t.c[1])
    ELSE t
RECURSIVE UnwrapKeepBlocks(_)
UnwrapKeepBlocks(t) == IF t.k = "paren" THEN UnwrapKeepBlocks(t.c[1]) ELSE t

\* canonical form: UnwrapTrivial at every node; empty statements dropped from blocks;
\* a block in expression position is its block
RECURSIVE Normalize(_)
Normalize(t) ==
    IF IsAtom(t) \/ t.k \in {"nil", "error", "diverge", "param"} THEN t
    ELSE IF t.k = "empty" THEN Block(<<>>)
    ELSE IF t.k \in {"paren", "xblock"} THEN Normalize(t.c[1])
    ELSE LET kept == IF t.k = "block" THEN SelectSeq(t.c, LAMBDA x : x.k # "empty") ELSE t.c
             cs   == [i \in 1..Len(kept) |-> Normalize(kept[i])]
         IN IF t.k = "block" /\ Len(cs) = 1 /\ ~IsDefine(cs[1]) THEN cs[1] ELSE Node(t.k, t.a, cs)

---------------------------------------------------------------------------
(* the meaning, parameterised by the deviation set V *)

Skip(V)   == IF "skip+1" \in V THEN 1 ELSE 0      \* forms skipped beyond the arguments
Reuse(V)  == IF "skip-1" \in V THEN 1 ELSE 0      \* last argument scanned again

IsCall(e) == LET u == UnwrapTrivial(e) IN u.k = "id" /\ u.a \in Sel
MacroOf(e) == Cat(UnwrapTrivial(e).a)

ParamIdx(a) == CASE a = "1" -> 1 [] a = "2" -> 2 [] a = "3" -> 3


Size0(t) == t.c = <<>>      \* ast2 Size() = 0: atoms, absent children, empty lists

\* typed slots of the ast2 wrapper: what Set(i, child) stores
IsExprKind(t) == t.k \in {"id", "int", "bin", "unary", "paren", "call", "q", "qq", "uq", "uqs", "xblock"}
ToExpr(t) == IF t.k = "nil" \/ IsExprKind(t) THEN t
             ELSE IF t.k = "empty" THEN Id("nil")
             ELSE IF t.k = "block"
                  THEN (IF t.c = <<>> THEN Id("nil")
                        ELSE IF Len(t.c) = 1 /\ IsExprKind(t.c[1]) THEN t.c[1]
                        ELSE IF Len(t.c) = 1 /\ t.c[1].k = "empty" THEN Id("nil")
                        ELSE Node("xblock", "", <<t>>))
             ELSE Node("xblock", "", <<Block(<<t>>)>>)
ToBlock(t) == IF t.k \in {"nil", "block"} THEN t ELSE Block(<<t>>)
SlotOf(k, i) ==
    CASE k \in {"bin", "unary", "paren", "ret", "list"} -> "expr"
      [] k = "call"   -> IF i = 1 THEN "expr" ELSE "elist"
      [] k = "assign" -> "elist"
      [] k = "if"     -> IF i = 2 THEN "expr" ELSE IF i = 3 THEN "block" ELSE "stmt"
      [] k = "for"    -> IF i = 2 THEN "expr" ELSE IF i = 4 THEN "block" ELSE "stmt"
      [] OTHER        -> "stmt"
Coerce(slot, t, V) ==
    CASE slot = "expr"  -> ToExpr(t)
      [] slot = "block" -> ToBlock(t)
      [] slot = "elist" -> IF t.k \in {"list", "nil"} THEN t ELSE Err    \* ToExprSlice refuses a non-list
      [] OTHER          -> t

\* a template instantiated with the arguments; an argument lands in a typed slot
RECURSIVE Subst(_, _)
Subst(t, args) == IF t.k = "param" THEN args[ParamIdx(t.a)]
                  ELSE Node(t.k, t.a, [i \in 1..Len(t.c) |->
                          IF t.c[i].k = "param" THEN Coerce(SlotOf(t.k, i), args[ParamIdx(t.c[i].a)], {})
                          ELSE Subst(t.c[i], args)])

\* the results of one macro call
Instantiate(m, args) ==
    LET body == [i \in 1..Len(m.tmpl) |-> Subst(m.tmpl[i], args)] IN
    IF m.mode = "nil" THEN <<>>
    ELSE IF m.mode = "vals" THEN body
    ELSE IF Len(body) = 1 THEN body ELSE <<Block(body)>>

\* results appended to the output list: a block is spliced
RECURSIVE Flatten(_, _)
Flatten(rs, V) ==
    IF rs = <<>> THEN <<>>
    ELSE LET r == rs[1] IN
         (IF r.k = "block" \/ (r.k = "ret" /\ "retsplice" \in V) THEN r.c
          ELSE IF r.k = "nil" THEN <<>> ELSE <<r>>) \o Flatten(Tail(rs), V)

\* one left-to-right scan of a list
RECURSIVE Scan(_, _)
Scan(s, V) ==
    IF s = <<>> THEN [ok |-> TRUE, out |-> <<>>, exp |-> FALSE]
    ELSE IF IsCall(s[1])
    THEN LET m  == MacroOf(s[1])
             ar == m.arity
         IN IF ar > Len(s) - 1 THEN [ok |-> FALSE, out |-> <<>>, exp |-> FALSE]
            ELSE LET next == ar + 2 + Skip(V) - Reuse(V)
                     rest == Scan(SubSeq(s, IF next < 2 THEN 2 ELSE next, Len(s)), V)
                 IN IF ~rest.ok THEN rest
                    ELSE [ok |-> TRUE, exp |-> TRUE,
                          out |-> Flatten(Instantiate(m, SubSeq(s, 2, ar + 1)), V) \o rest.out]
    ELSE LET rest == Scan(Tail(s), V) IN [rest EXCEPT !.out = <<s[1]>> \o @]

\* MacroExpand1 on a node: [t, exp]
Expand1(t0, V) ==
    LET t == UnwrapKeepBlocks(t0) IN
    IF t.k \notin ListKinds THEN [t |-> t, exp |-> FALSE]
    ELSE LET r == Scan(t.c, V) IN
         IF ~r.ok THEN [t |-> Err, exp |-> FALSE]
         ELSE IF ~r.exp THEN [t |-> t, exp |-> FALSE]
         ELSE IF r.out = <<>> /\ "emptied" \in V THEN [t |-> Empty, exp |-> TRUE]
         ELSE LET o == Node(t.k, t.a, r.out)
              IN [t |-> IF "sole" \in V THEN UnwrapTrivial(o) ELSE o, exp |-> TRUE]

RECURSIVE ExpandN(_, _, _)
ExpandN(t, V, fuel) ==
    LET r == Expand1(t, V) IN
    IF IsBad(r.t) \/ ~r.exp THEN r.t
    ELSE IF fuel = 0 THEN Diverge
    ELSE ExpandN(r.t, V, fuel - 1)
Expand(t, V) == ExpandN(t, V, Fuel)

HasBad(s) == \E i \in 1..Len(s) : IsBad(s[i])
FirstBad(s) == s[Min({i \in 1..Len(s) : IsBad(s[i])})]

\* the code walk: [t |-> tree, x |-> "anything expanded"]. The flag only matters for the
\* deviation "flaglost" (a quote node forgets that its own level expanded and reports only what
\* its body walk reports; its parent quote node then keeps its old, unexpanded child). It shows
\* only together with "sole": the expansion must leave ONE form that is itself a quote node.
RECURSIVE CW(_, _, _)
CW(t, d, V) ==
    IF Size0(t) THEN [t |-> t, x |-> FALSE]
    ELSE LET a  == d <= 0 /\ Expand1(t, V).exp
             t1 == IF d <= 0 THEN Expand(t, V) ELSE t IN
    IF IsBad(t1) THEN [t |-> t1, x |-> FALSE]
    ELSE LET t2 == IF "sole" \in V THEN UnwrapTrivial(t1) ELSE t1 IN
    IF t2.k \in QuoteKinds \cup {"xblock"}
    THEN IF t2.k = "q" /\ d = 0 /\ "inquote" \notin V THEN [t |-> t2, x |-> a]
         ELSE LET d2   == IF t2.k = "qq" THEN d + 1 ELSE IF t2.k \in {"q", "xblock"} THEN d ELSE d - 1
                  body == t2.c[1]
                  r    == IF "sole" \in V THEN CW(UnwrapTrivial(body), d2, V) ELSE CW(body, d2, V)
              IN IF IsBad(r.t) THEN r
                 ELSE IF "flaglost" \in V
                 THEN [t |-> IF r.x \/ t2.k = "xblock" THEN Node(t2.k, t2.a, <<ToBlock(r.t)>>) ELSE t2, x |-> r.x]
                 ELSE [t |-> Node(t2.k, t2.a, <<ToBlock(r.t)>>), x |-> a \/ r.x]
    ELSE LET kids == [i \in 1..Len(t2.c) |->
                        LET c  == IF "sole" \in V THEN UnwrapTrivial(t2.c[i]) ELSE t2.c[i]
                            c2 == IF Size0(c) THEN [t |-> c, x |-> FALSE] ELSE CW(c, d, V)
                        IN IF IsBad(c2.t) THEN c2
                           ELSE IF "emptied" \in V THEN [c2 EXCEPT !.t = Coerce(SlotOf(t2.k, i), c2.t, V)] ELSE c2]
             trees == [i \in 1..Len(kids) |-> kids[i].t]
         IN IF HasBad(trees) THEN [t |-> FirstBad(trees), x |-> FALSE]
            ELSE [t |-> Node(t2.k, t2.a, trees), x |-> a \/ \E i \in 1..Len(kids) : kids[i].x]

Codewalk(t, V) == CW(t, 0, V).t

\* the wrapper-level mechanism on macro-free code (exact, not modulo Normalize)
RECURSIVE WalkRebuild(_)
WalkRebuild(t) ==
    IF Size0(t) THEN t
    ELSE LET t1 == UnwrapTrivial(t) IN
         IF Size0(t1) \/ t1.k \in QuoteKinds THEN t1
         ELSE Node(t1.k, t1.a, [i \in 1..Len(t1.c) |->
                 LET c == UnwrapTrivial(t1.c[i])
                 IN Coerce(SlotOf(t1.k, i), IF Size0(c) THEN c ELSE WalkRebuild(c), {})])

---------------------------------------------------------------------------
(* behaviours: choose a table, derive a form *)

Init == \E i \in 1..Len(Tables) :
           /\ tb = i
           /\ GenInit(Hole("stmt"), CallsOf(Tables[i].calls))
Next == GenNext /\ UNCHANGED tb
Spec == Init /\ [][Next]_vars

---------------------------------------------------------------------------
(* (M) laws the meaning must satisfy; Broken switches a deviation on in the property itself *)

P == Broken                      \* the deviation set under test ({} = the property)

RECURSIVE MacroNames(_)          \* declared macro names occurring anywhere in a form
MacroNames(t) == (IF t.k = "id" /\ t.a \in Sel THEN {t.a} ELSE {})
                 \cup UNION {MacroNames(t.c[i]) : i \in 1..Len(t.c)}
MacroFree(t) == MacroNames(t) = {}

\* macro names at positions where expansion may happen (outside quote, quasiquote depth <= 0)
RECURSIVE Exposed(_, _)
Exposed(t, d) ==
    IF t.k = "q" /\ d = 0 THEN {}
    ELSE (IF t.k = "id" /\ t.a \in Sel /\ d <= 0 THEN {t.a} ELSE {})
         \cup UNION {Exposed(t.c[i], IF t.k = "qq" THEN d + 1 ELSE IF t.k \in {"uq", "uqs"} THEN d - 1 ELSE d)
                     : i \in 1..Len(t.c)}

RECURSIVE DefineBlocks(_)        \* blocks whose only statement is a short declaration
DefineBlocks(t) == (IF t.k = "block" /\ Len(t.c) = 1 /\ IsDefine(t.c[1]) THEN 1 ELSE 0)
                   + Sum([i \in 1..Len(t.c) |-> DefineBlocks(t.c[i])], Len(t.c))

\* 1. macro-free code is unchanged modulo trivial wrappers, by every entry point
IdentityLaw ==
    (Complete /\ MacroFree(Form)) =>
        /\ Normalize(Codewalk(Form, P)) = Normalize(Form)
        /\ Normalize(WalkRebuild(Form)) = Normalize(Form)
        /\ Leaves(WalkRebuild(Form)) = Leaves(Form)
        /\ Expand1(Form, P) = [t |-> UnwrapKeepBlocks(Form), exp |-> FALSE]
        /\ Expand(Form, P) = UnwrapKeepBlocks(Form)

\* 2. removing trivial wrappers never changes meaning
NormalizeLaw ==
    Complete => LET nf == Normalize(Form) IN
        /\ Normalize(nf) = nf
        /\ Leaves(nf) = Leaves(Form)
        /\ DefineBlocks(nf) = DefineBlocks(Form)
        /\ Count(nf, {"paren", "empty", "xblock"}) = 0

\* 3. consumption: stated declaratively. C is the set of call positions of a list: position
\*    i is a call iff it holds a macro name and no earlier call's arguments cover it.
CallSet(s) == CHOOSE C \in SUBSET (1..Len(s)) :
                 \A i \in 1..Len(s) :
                    i \in C <=> /\ IsCall(s[i])
                                /\ ~\E j \in C : j < i /\ i <= j + MacroOf(s[j]).arity
NResults(s, i) == Len(Flatten(Instantiate(MacroOf(s[i]), SubSeq(s, i + 1, i + MacroOf(s[i]).arity)), {}))
ConsumptionLaw ==
    (Complete /\ Form.k \in ListKinds) =>
        LET s  == Form.c
            C  == CallSet(s)
            r  == Scan(s, P)
            short == \E i \in C : i + MacroOf(s[i]).arity > Len(s)
            covered == {i \in 1..Len(s) : \E j \in C : j <= i /\ i <= j + MacroOf(s[j]).arity}
            kept == SelectSeq([i \in 1..Len(s) |-> [i |-> i, e |-> s[i]]], LAMBDA x : x.i \notin covered)
        IN /\ r.ok = ~short
           /\ r.ok => /\ r.exp = (C # {})
                      /\ Len(r.out) = Len(s) - Cardinality(covered)
                                      + Sum([i \in 1..Len(s) |-> IF i \in C THEN NResults(s, i) ELSE 0], Len(s))
                      \* forms outside every call are kept, in order
                      /\ \A x \in 1..Len(kept) : \E y \in 1..Len(r.out) : r.out[y] = kept[x].e

\* 4. splicing: a list whose only call is its first element is replaced by the results, in
\*    order, followed by the forms the call did not consume
SplicingLaw ==
    (Complete /\ Form.k \in ListKinds /\ Form.c # <<>> /\ IsCall(Form.c[1])) =>
        LET s == Form.c
            m == MacroOf(s[1])
        IN (m.arity <= Len(s) - 1 /\ \A i \in (m.arity + 2)..Len(s) : ~IsCall(s[i])) =>
              Scan(s, P).out = Flatten(Instantiate(m, SubSeq(s, 2, m.arity + 1)), {})
                               \o SubSeq(s, m.arity + 2, Len(s))

\* 5. quote is opaque, quasiquote depth is respected: a form none of whose macro names is
\*    exposed comes back unchanged
OpaqueLaw ==
    (Complete /\ Exposed(Form, 0) = {}) => Normalize(Codewalk(Form, P)) = Normalize(Form)

\* 6. termination: only a table in which a macro (transitively) produces itself can diverge
RECURSIVE Produces(_, _, _)
Produces(a, b, fuel) ==    \* macro a's template mentions b, directly or through other macros
    LET direct == UNION {MacroNames(Cat(a).tmpl[i]) : i \in 1..Len(Cat(a).tmpl)} IN
    \/ b \in direct
    \/ fuel > 0 /\ \E x \in direct : Produces(x, b, fuel - 1)
SelfProducing == \E a \in Sel : Produces(a, a, 3)
TerminationLaw ==
    (Complete /\ ~SelfProducing) => /\ Codewalk(Form, P).k # "diverge"
                                    /\ Expand(Form, P).k # "diverge"

TypeOK == /\ tb \in 1..Len(Tables)
          /\ GenOK

---------------------------------------------------------------------------
(* (R) one record per generated form: the input, the expected outcome of the three entry
   points under the property, and the outcome under each named deviation when it differs *)

Known == <<{"sole"}, {"retsplice"}, {"emptied"}, {"sole", "flaglost"}, {"sole", "retsplice", "emptied", "flaglost"},
           {"skip+1"}, {"skip-1"}, {"inquote"}>>
KnownName == <<"sole", "retsplice", "emptied", "flaglost", "asbuilt", "skip+1", "skip-1", "inquote">>

Out(t) == IF IsBad(t) THEN t ELSE Normalize(t)
Outcome(V) == [e1 |-> Out(Expand1(Form, V).t), x1 |-> Expand1(Form, V).exp,
               ex |-> Out(Expand(Form, V)), cw |-> Out(Codewalk(Form, V))]

Emit ==
    IF ~EmitOn \/ ~Complete THEN TRUE
    ELSE LET spec == Outcome({})
             devs == SelectSeq([i \in 1..Len(Known) |-> [name |-> KnownName[i], o |-> Outcome(Known[i])]],
                               LAMBDA x : x.o # spec)
         IN PrintT(ToJson([t |-> "case", tb |-> tb, in |-> Form, nin |-> Normalize(Form),
                           free |-> MacroFree(Form), wr |-> IF MacroFree(Form) THEN WalkRebuild(Form) ELSE Nil,
                           spec |-> spec, devs |-> devs]))

EmitMeta ==
    IF EmitOn /\ tree = Node("root", "", <<Hole("stmt")>>)
    THEN PrintT(ToJson([t |-> "table", tb |-> tb, sel |-> [i \in 1..Len(Tables[tb].sel) |-> Cat(Tables[tb].sel[i])]]))
    ELSE TRUE
=============================================================================

---------------------------- MODULE AstNodeTrace ----------------------------
(***************************************************************************)
(* Validation (V) of node events recorded while every node of a parsed     *)
(* corpus is wrapped and rebuilt through package ast2.  One event per      *)
(* DISTINCT node shape:                                                    *)
(*   kind   the go/ast node kind (the harness's projection),               *)
(*   size   what the real wrapper's Size() answered,                       *)
(*   attrs  the scalar / position attributes the projection compares,      *)
(*   kids   the kind of the child in every slot ("Nil" = absent),          *)
(*   s3     SliceExpr.Slice3,                                              *)
(*   rt     TRUE iff New() + Set(i, rebuilt Get(i)) for every i returned a *)
(*          node with the same attributes and the same children in the     *)
(*          same slots, and ToNode(ToAst(n)) = n.                          *)
(* An event is accepted iff it is a node of the signature table of         *)
(* AstNode.tla: Size() = number of slots (or elements), attributes as in   *)
(* the table, every child admissible for its slot, Slice3 = (Max present), *)
(* and the round trip succeeded.                                           *)
(***************************************************************************)
EXTENDS AstNode

Trace == ndJsonDeserialize("astnode_events.ndjson")

VARIABLES l,    \* next event
          rej   \* indices of the rejected events

tvars == <<vars, l, rej>>

Accept(e) ==
    /\ e.kind \in Kinds
    /\ LET s == Sig[e.kind] IN
       /\ e.size = (IF s.var THEN Len(e.kids) ELSE SizeTab(e.kind))
       /\ ~s.var => Len(e.kids) = Len(s.slots)
       /\ SeqSet(e.attrs) = SeqSet(s.pos) \cup SeqSet(s.sc)
       /\ \A i \in 1..Len(e.kids) :
            e.kids[i] = "Nil" \/ e.kids[i] \in Adm(SlotTy(e.kind, i))
       /\ e.kind = "SliceExpr" => e.s3 = (e.kids[4] # "Nil")
    /\ e.rt

\* the variables of AstNode are not used: the table is constant-level
TraceInit == /\ phase = "trace" /\ tree = Nil /\ holes = <<>> /\ used = 0 /\ pick = "" /\ stack = <<>> /\ result = None
             /\ l = 1 /\ rej = {}

TraceNext == /\ l <= Len(Trace)
             /\ l' = l + 1
             /\ rej' = IF Accept(Trace[l]) THEN rej ELSE rej \cup {l}
             /\ UNCHANGED vars

TraceSpec == TraceInit /\ [][TraceNext]_tvars

\* printed once, when the whole trace has been consumed
EmitRejected == IF l = Len(Trace) + 1 THEN PrintT(ToJson([rejected |-> rej, events |-> Len(Trace)])) ELSE TRUE
=============================================================================

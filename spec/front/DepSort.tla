------------------------------ MODULE DepSort ------------------------------
(***************************************************************************)
(* Top-level declarations of one Go source, their free references, and the *)
(* order in which a source-stable dependency sort hands them to a compiler  *)
(* (properties C17 and C16; code: gomacro base/dep sorter.go, graph.go,     *)
(* scope.go, fast/compile.go Comp.Compile).                                 *)
(*                                                                          *)
(* A behaviour has two parts.                                               *)
(*  1. GENERATION: the declaration list is state and grows by actions:      *)
(*     AddDecl (kind), AddEdge (a FREE reference i -> j), AddShadow (a      *)
(*     reference from i to the NAME of j that is shadowed by a parameter,   *)
(*     named result, :=, var, range or type-switch variable, or the init    *)
(*     statement of if / for / switch, and therefore                        *)
(*     does NOT count), Close (choose the layout: package clause, import,   *)
(*     a separator that is not a declaration, trailing statement).          *)
(*     Declarations are identified by their index = order of their source   *)
(*     positions.  Edges are added in increasing order so that one graph is *)
(*     one state.                                                           *)
(*  2. SORT (small step): repeatedly remove, from the current run of        *)
(*     declarations, the position-minimal declaration all of whose free     *)
(*     references are already emitted.  When none is removable, types that  *)
(*     lie on a dependency cycle may be forward-declared (any non-empty set *)
(*     of them: the property does not fix which; a forward declaration of T *)
(*     satisfies the references of TYPES to T only); when no such type is   *)
(*     left the outcome is the declaration-loop error.  The property states *)
(*     the error only for cycles WITHOUT a type, and success only for what  *)
(*     forward declarations can break: while a non-type sits on a blocking  *)
(*     cycle the error is admitted as well (permissive exactly there).      *)
(*                                                                          *)
(* The module also carries VALUES (property C16): declaration i has the own *)
(* constant K[i];                                                           *)
(*    const c = K + refs      var v = K + refs                              *)
(*    func f() int { return K + refs }                                      *)
(*    type T struct { A [K + const refs]int; fields for type refs }         *)
(* a reference to a type contributes the length of its array, a reference   *)
(* that lies on a cycle is never executed (guarded call / pointer field).   *)
(***************************************************************************)
EXTENDS Naturals, Sequences, FiniteSets, TLC, Json

CONSTANTS MaxN,         \* maximum number of declarations
          MinN,         \* a graph may be closed when it has at least MinN declarations
          MaxE,         \* maximum number of free references (edges)
          MaxSh,        \* maximum number of shadowed references
          Kinds,        \* subset of {"const", "var", "func", "type"}
          ShadowHows,   \* subset of {"param","result","define","var","range","tswitch",
                        \*            "ifinit","forinit","switchinit"}
          Layouts,      \* set of layout records, see TrivialLayout
          NameRank,     \* NameRank[i] = rank of the NAME of declaration i in name order
          TieBreak,     \* "pos": the property. "name": broken variant (tie-break by name)
          CountShadowed,\* FALSE: the property. TRUE: broken variant (shadowed refs count)
          StepSort,     \* TRUE: the sort is explored step by step (SortStep enabled)
          EmitOn

VARIABLES decls,   \* sequence of [kind, deps]; index = source order
          sh,      \* set of [from, to, how]: shadowed references
          phase,   \* "decls" | "edges" | "shadows" | "sort"
          lay,     \* layout chosen by Close
          st       \* sort state [run, rem, fwd, out, err]

vars == <<decls, sh, phase, lay, st>>

K == <<1, 2, 4, 8, 16, 32>>

TrivialLayout == [pkg |-> FALSE, imp |-> FALSE, cut |-> 0, sep |-> "none", tail |-> FALSE]
\* pkg : the source starts with a package clause          imp : then an import declaration
\* cut : c > 0: a separator follows declaration c (c < n): the declarations form two runs
\* sep : "stmt" | "expr" | "import" | "pkg"  kind of the separator
\* tail: a statement follows the last declaration

N == Len(decls)
Idx == 1..N
Kind(i) == decls[i].kind
Deps(i) == decls[i].deps

Min(S) == CHOOSE x \in S : \A y \in S : x <= y

----------------------------------------------------------------------------
(* Which references Go allows (so that the rendered source type-checks) *)
EdgeOK(i, j) ==
    IF i = j THEN Kind(i) \in {"func", "type"}
    ELSE CASE Kind(i) = "const" -> Kind(j) \in {"const", "type"}
           [] Kind(i) = "type"  -> Kind(j) \in {"const", "type"}
           [] OTHER -> TRUE

Edges == {e \in Idx \X Idx : e[2] \in Deps(e[1])}
Later(e, f) == e[1] > f[1] \/ (e[1] = f[1] /\ e[2] > f[2])

\* scoped to a block or to one statement: a free reference to the same name may coexist
BlockHows == {"define", "var", "range", "tswitch", "ifinit", "forinit", "switchinit"}

ShadowOK(i, j, h) ==
    /\ i # j
    /\ Kind(i) \in {"func", "var"}        \* var: inside a function literal of the initializer
    /\ h \in ShadowHows
    /\ (j \in Deps(i) => h \in BlockHows) \* a free reference may coexist outside the block
    /\ \A s \in sh : ~(s.from = i /\ s.to = j)

----------------------------------------------------------------------------
(* Runs of declarations *)
NRuns == IF lay.cut > 0 THEN 2 ELSE 1
Run(r) == IF lay.cut = 0 THEN Idx
          ELSE IF r = 1 THEN 1..lay.cut ELSE (lay.cut + 1)..N
RunOf(i) == IF lay.cut > 0 /\ i > lay.cut THEN 2 ELSE 1

\* references that the sort must respect: free, to another declaration of the same run
ShTargets(i) == IF CountShadowed THEN {s.to : s \in {x \in sh : x.from = i}} ELSE {}
D(i) == ((Deps(i) \cup ShTargets(i)) \ {i}) \cap Run(RunOf(i))
\* the property's relation (never includes shadowed references)
DFree(i) == (Deps(i) \ {i}) \cap Run(RunOf(i))

\* reachability over a successor function F : Idx -> SUBSET Idx  (N is tiny: fixpoint of sets)
RECURSIVE Grow(_, _)
Grow(F, S) == LET T == S \cup UNION {F[j] : j \in S} IN IF T = S THEN S ELSE Grow(F, T)
ReachPlus(F, i) == Grow(F, F[i])             \* by one or more references
CycleAt(F, i) == i \in ReachPlus(F, i)

FAll == [i \in Idx |-> Deps(i)]               \* every free reference, self references included
FRun == [i \in Idx |-> DFree(i)]              \* what the sort sees: same run, no self reference
CycEdge(i, j) == j \in Deps(i) /\ i \in Grow(FAll, {j})      \* the reference lies on a cycle
OnCycle(i) == CycleAt(FRun, i)

----------------------------------------------------------------------------
(* Sort, small step *)
Best(S) == IF TieBreak = "pos" THEN Min(S)
           ELSE CHOOSE i \in S : \A j \in S : NameRank[i] <= NameRank[j]

Unsat(i, s) == {j \in D(i) : j \in s.rem /\ ~(Kind(i) = "type" /\ j \in s.fwd)}
Free(s) == {i \in s.rem : Unsat(i, s) = {}}
StuckF(s) == [i \in Idx |-> IF i \in s.rem THEN Unsat(i, s) ELSE {}]
CycTypes(s) == LET F == StuckF(s) IN
               {t \in s.rem \ s.fwd : Kind(t) = "type" /\ CycleAt(F, t)}
\* a declaration that is not a type lies on one of the cycles that block the sort
NonTypeBlocked(s) == LET F == StuckF(s) IN \E i \in s.rem : Kind(i) # "type" /\ CycleAt(F, i)

RECURSIVE SetToSeq(_)
SetToSeq(S) == IF S = {} THEN <<>> ELSE LET m == Min(S) IN <<m>> \o SetToSeq(S \ {m})
FwdItems(S) == LET q == SetToSeq(S) IN [p \in 1..Len(q) |-> <<"fwd", q[p]>>]

PrefixOf(l) == (IF l.pkg THEN <<<<"pkg", 0>>>> ELSE <<>>) \o (IF l.imp THEN <<<<"imp", 0>>>> ELSE <<>>)
InitSortOf(l) == [run |-> 1, rem |-> IF l.cut = 0 THEN Idx ELSE 1..l.cut, fwd |-> {},
                  out |-> PrefixOf(l), err |-> FALSE]
InitSort == InitSortOf(lay)
NoSort == [run |-> 0, rem |-> {}, fwd |-> {}, out |-> <<>>, err |-> FALSE]

Terminal(s) == s.err \/ s.run > NRuns

Succ(s) ==
    IF Terminal(s) THEN {}
    ELSE IF s.rem = {} THEN
       \* the run is exhausted: the separator / trailing statement keeps its place
       IF s.run < NRuns
       THEN {[s EXCEPT !.run = 2, !.rem = Run(2), !.fwd = {}, !.out = Append(@, <<"sep", 0>>)]}
       ELSE {[s EXCEPT !.run = NRuns + 1, !.out = IF lay.tail THEN Append(@, <<"tail", 0>>) ELSE @]}
    ELSE IF Free(s) # {} THEN
       LET b == Best(Free(s)) IN
       {[s EXCEPT !.rem = @ \ {b}, !.out = Append(@, <<"d", b>>)]}
    ELSE LET C == CycTypes(s) IN
       {[s EXCEPT !.fwd = @ \cup S, !.out = @ \o FwdItems(S)] : S \in (SUBSET C) \ {{}}}
       \cup (IF C = {} \/ NonTypeBlocked(s) THEN {[s EXCEPT !.err = TRUE]} ELSE {})

\* big step: every outcome the small-step relation can reach
RECURSIVE Outcomes(_)
Outcomes(s) == IF Terminal(s) THEN {[err |-> s.err, out |-> IF s.err THEN <<>> ELSE s.out]}
               ELSE UNION {Outcomes(t) : t \in Succ(s)}

----------------------------------------------------------------------------
(* Go-level meaning of the declaration set (C16) *)

\* Go rejects a reference cycle through a variable or a constant (initialization cycle /
\* invalid cycle); cycles of functions only (mutual recursion) and of types only (rendered
\* with pointer fields) are valid.
\* A cycle through a constant that is closed only by pointer fields (type -> type references on
\* a cycle are rendered as pointer fields) is accepted or rejected by go/types and gc depending
\* on where their traversal enters it: its validity is left unspecified here.
FNoPtr == [i \in Idx |-> {j \in Deps(i) : ~(Kind(i) = "type" /\ Kind(j) = "type" /\ CycEdge(i, j))}]
GoValid == \A i \in Idx : Kind(i) \in {"const", "var"} => ~CycleAt(FAll, i)
GoInvalid == \E i \in Idx : Kind(i) \in {"const", "var"} /\ CycleAt(FNoPtr, i)
GoValidity == IF GoValid THEN "yes" ELSE IF GoInvalid THEN "no" ELSE "unspecified"

RECURSIVE Val(_)
Val(i) ==
    LET ds == {j \in Deps(i) : ~CycEdge(i, j)}
        RECURSIVE Sum(_)
        Sum(S) == IF S = {} THEN 0 ELSE LET j == Min(S) IN Val(j) + Sum(S \ {j})
    IN IF Kind(i) = "type" THEN K[i] + Sum({j \in ds : Kind(j) = "const"})
       ELSE K[i] + Sum(ds)

\* spec-level predicates used in finding signatures
MixedCycle == \E i, j \in Idx : /\ Kind(i) = "type" /\ Kind(j) # "type"
                                 /\ j \in ReachPlus(FAll, i) /\ i \in ReachPlus(FAll, j)
FuncCycle == \E i, j \in Idx : /\ i # j /\ Kind(i) = "func" /\ Kind(j) = "func"
                                /\ j \in ReachPlus(FAll, i) /\ i \in ReachPlus(FAll, j)
\* two or more types on a common cycle that consists of types only
FTypeOnly == [i \in Idx |-> IF Kind(i) = "type" THEN {j \in DFree(i) : Kind(j) = "type"} ELSE {}]
TypeCycle == \E i \in Idx : CycleAt(FTypeOnly, i)
\* a cycle (within one run) none of whose members is a type
FNonType == [i \in Idx |-> IF Kind(i) = "type" THEN {} ELSE {j \in DFree(i) : Kind(j) # "type"}]
NonTypeCycle == \E i \in Idx : CycleAt(FNonType, i)
\* cycles that forward declarations cannot break: drop every type -> type reference
FHard == [i \in Idx |-> {j \in DFree(i) : ~(Kind(i) = "type" /\ Kind(j) = "type")}]
HardCycle == \E i \in Idx : CycleAt(FHard, i)
Acyclic == \A i \in Idx : ~OnCycle(i)
\* some declaration that is not a type lies on a cycle (within its run)
NonTypeOnCycle == \E i \in Idx : Kind(i) # "type" /\ OnCycle(i)

----------------------------------------------------------------------------
Init == /\ decls = <<>> /\ sh = {} /\ phase = "decls" /\ lay = TrivialLayout /\ st = NoSort

AddDecl == /\ phase = "decls" /\ N < MaxN
           /\ \E k \in Kinds : decls' = Append(decls, [kind |-> k, deps |-> {}])
           /\ UNCHANGED <<sh, phase, lay, st>>

AddEdge == /\ phase \in {"decls", "edges"} /\ N >= MinN /\ Cardinality(Edges) < MaxE
           /\ \E i, j \in Idx :
                /\ EdgeOK(i, j) /\ j \notin Deps(i)
                /\ \A f \in Edges : Later(<<i, j>>, f)
                /\ decls' = [decls EXCEPT ![i].deps = @ \cup {j}]
           /\ phase' = "edges"
           /\ UNCHANGED <<sh, lay, st>>

AddShadow == /\ phase \in {"decls", "edges", "shadows"} /\ N >= MinN /\ Cardinality(sh) < MaxSh
             /\ \E i, j \in Idx, h \in ShadowHows :
                  /\ ShadowOK(i, j, h)
                  /\ sh' = sh \cup {[from |-> i, to |-> j, how |-> h]}
             /\ phase' = "shadows"
             /\ UNCHANGED <<decls, lay, st>>

LayoutOK(l) == /\ l.cut < N
               /\ (l.cut = 0 <=> l.sep = "none")

Close == /\ phase # "sort" /\ N >= MinN
         /\ \E l \in Layouts : LayoutOK(l) /\ lay' = l /\ st' = InitSortOf(l)
         /\ phase' = "sort"
         /\ UNCHANGED <<decls, sh>>

\* enabled only when StepSort: the small configurations explore the sort step by step,
\* the large ones check the same predicates on every big-step outcome (OutcomesOK)
SortStep == /\ StepSort /\ phase = "sort"
            /\ \E t \in Succ(st) : st' = t
            /\ UNCHANGED <<decls, sh, phase, lay>>

Next == AddDecl \/ AddEdge \/ AddShadow \/ Close \/ SortStep
Spec == Init /\ [][Next]_vars

----------------------------------------------------------------------------
(* (M) Properties of the sort, stated declaratively on an output list `out`;           *)
(* final = the sort has finished without error                                         *)

DeclsBefore(out, p) == {out[q][2] : q \in {x \in 1..(p - 1) : out[x][1] = "d"}}
FwdBefore(out, p) == {out[q][2] : q \in {x \in 1..(p - 1) : out[x][1] = "fwd"}}
\* is every free reference of i available given emitted declarations E and forward decls F
Avail(i, E, F) == \A j \in DFree(i) : j \in E \/ (Kind(i) = "type" /\ Kind(j) = "type" /\ j \in F)

\* every declaration at most once; at the end exactly once ("a permutation")
PermutationP(out, final) ==
    /\ \A p, q \in 1..Len(out) : (p # q /\ out[p][1] = out[q][1] /\ out[p][1] \in {"d", "fwd"}) => out[p][2] # out[q][2]
    /\ \A p \in 1..Len(out) : out[p][1] \in {"d", "fwd"} => out[p][2] \in Idx
    /\ final => DeclsBefore(out, Len(out) + 1) = Idx

\* a declaration comes after every declaration whose name occurs free in it; a type may
\* instead see a forward declaration
TopologicalP(out) == \A p \in 1..Len(out) : out[p][1] = "d" =>
                        Avail(out[p][2], DeclsBefore(out, p), FwdBefore(out, p))

\* only types on a dependency cycle are forward-declared, before their declaration, once
FwdLegalP(out) == \A p \in 1..Len(out) : out[p][1] = "fwd" =>
                     /\ Kind(out[p][2]) = "type" /\ OnCycle(out[p][2])
                     /\ out[p][2] \notin DeclsBefore(out, p)

\* among the declarations allowed next, the earliest in the source is taken
MinRuleP(out) == \A p \in 1..Len(out) : out[p][1] = "d" =>
                    LET i == out[p][2]
                        E == DeclsBefore(out, p)
                        F == FwdBefore(out, p)
                    IN \A x \in Run(RunOf(i)) \ E : Avail(x, E, F) => x >= i

\* package clause, import, separator, trailing statement keep their place
PhaseOrderP(out) == \A p, q \in 1..Len(out) : p < q =>
                       /\ out[q][1] # "pkg"
                       /\ out[q][1] = "imp" => out[p][1] = "pkg"
                       /\ (out[p][1] = "sep" /\ out[q][1] \in {"d", "fwd"}) => RunOf(out[q][2]) = 2
                       /\ (out[q][1] = "sep" /\ out[p][1] \in {"d", "fwd"}) => RunOf(out[p][2]) = 1
                       /\ out[p][1] # "tail"
PhaseCompleteP(out) == /\ lay.pkg => out[1] = <<"pkg", 0>>
                       /\ lay.imp => \E p \in 1..2 : out[p] = <<"imp", 0>>
                       /\ lay.cut > 0 => \E p \in 1..Len(out) : out[p] = <<"sep", 0>>
                       /\ lay.tail => out[Len(out)] = <<"tail", 0>>

\* the error is reported for every cycle that forward type declarations cannot break - in
\* particular for every cycle without a type - and never unless a non-type lies on a cycle
LoopIffP(err) == /\ HardCycle => err
                 /\ NonTypeCycle => err
                 /\ err => NonTypeOnCycle

\* --- small step: on the state of the running sort
TypeOK == /\ phase \in {"decls", "edges", "shadows", "sort"}
          /\ N <= MaxN /\ Cardinality(Edges) <= MaxE /\ Cardinality(sh) <= MaxSh
          /\ \A e \in Edges : EdgeOK(e[1], e[2])
          /\ \A p \in 1..Len(st.out) : st.out[p][1] \in {"pkg", "imp", "d", "fwd", "sep", "tail"}
Finished == phase = "sort" /\ st.run > NRuns /\ ~st.err
Permutation == PermutationP(st.out, Finished)
Topological == TopologicalP(st.out)
FwdLegal == FwdLegalP(st.out)
MinRule == MinRuleP(st.out)
PhaseOrder == PhaseOrderP(st.out) /\ (Finished => PhaseCompleteP(st.out))
LoopIff == (phase = "sort" /\ Terminal(st)) => LoopIffP(st.err)

\* --- big step: closed graph, before the first step: the outcome set
AtStart == phase = "sort" /\ st = InitSort
IdentityOut == PrefixOf(lay) \o [p \in 1..lay.cut |-> <<"d", p>>]
                  \o (IF lay.cut > 0 THEN <<<<"sep", 0>>>> ELSE <<>>)
                  \o [p \in 1..(N - lay.cut) |-> <<"d", lay.cut + p>>]
                  \o (IF lay.tail THEN <<<<"tail", 0>>>> ELSE <<>>)
Deterministic == AtStart =>
    LET O == Outcomes(st) IN
    /\ O # {}
    /\ Acyclic => Cardinality(O) = 1
    \* cycles of types only are always sorted, with forward declarations
    /\ ~NonTypeOnCycle => \A o \in O : ~o.err
    \* whenever forward declarations can break every cycle, some outcome is an order
    /\ ~HardCycle => \E o \in O : ~o.err
    \* unconstrained declarations keep their source order
    /\ (\A i \in Idx : DFree(i) = {}) => O = {[err |-> FALSE, out |-> IdentityOut]}
OutcomesOK == AtStart =>
    \A o \in Outcomes(st) :
       /\ LoopIffP(o.err)
       /\ ~o.err => /\ PermutationP(o.out, TRUE) /\ TopologicalP(o.out) /\ FwdLegalP(o.out)
                    /\ MinRuleP(o.out) /\ PhaseOrderP(o.out) /\ PhaseCompleteP(o.out)

----------------------------------------------------------------------------
(* Emission (R): one record per closed graph *)
Record ==
    [n |-> N,
     decls |-> [i \in Idx |-> [kind |-> Kind(i), deps |-> SetToSeq(Deps(i)), k |-> K[i],
                                cyc |-> SetToSeq({j \in Deps(i) : CycEdge(i, j)})]],
     sh |-> sh,
     lay |-> lay,
     outcomes |-> Outcomes(st),
     govalid |-> GoValidity,
     vals |-> IF GoValid /\ lay = TrivialLayout THEN [i \in Idx |-> Val(i)] ELSE <<>>,
     mixed |-> MixedCycle,
     funccycle |-> FuncCycle,
     typecycle |-> TypeCycle,
     acyclic |-> Acyclic]

Emit == IF EmitOn /\ AtStart THEN PrintT(ToJson(Record)) ELSE TRUE
=============================================================================
